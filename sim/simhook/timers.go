package simhook

import (
	"fmt"
	"sort"
	"time"
)

// T9: timers of the code under test are simulator events.  Inside a simulation a timer
// never fires by itself: the driver sees every pending deadline, advances the (synctest)
// clock to it and fires due timers one at a time in an order it chooses.

type simTimer struct {
	Label  string
	Due    time.Time
	Period time.Duration
	ch     chan time.Time
	fn     func()
	active bool
	Owner  string
}

type Timer struct {
	C    <-chan time.Time
	real *time.Timer
	st   *simTimer
	rt   *Runtime
}

type Ticker struct {
	C    <-chan time.Time
	real *time.Ticker
	st   *simTimer
	rt   *Runtime
}

func (rt *Runtime) newTimer(d time.Duration, period time.Duration, fn func()) *simTimer {
	t := rt.cur()
	rt.mu.Lock()
	owner := &rt.root
	if t != nil {
		owner = t
	}
	owner.timerSeq++
	st := &simTimer{
		Label:  fmt.Sprintf("tm:T%d.%d", owner.ID, owner.timerSeq),
		Due:    time.Now().Add(d),
		Period: period,
		ch:     make(chan time.Time, 1),
		fn:     fn,
		active: true,
		Owner:  owner.Site,
	}
	rt.timers[st.Label] = st
	rt.mu.Unlock()
	return st
}

func NewTimer(d time.Duration) *Timer {
	rt := RT()
	if rt == nil {
		r := time.NewTimer(d)
		return &Timer{C: r.C, real: r}
	}
	st := rt.newTimer(d, 0, nil)
	return &Timer{C: st.ch, st: st, rt: rt}
}

func AfterFunc(d time.Duration, f func()) *Timer {
	rt := RT()
	if rt == nil {
		r := time.AfterFunc(d, f)
		return &Timer{real: r}
	}
	st := rt.newTimer(d, 0, f)
	return &Timer{st: st, rt: rt}
}

func After(d time.Duration) <-chan time.Time {
	rt := RT()
	if rt == nil {
		return time.After(d)
	}
	return rt.newTimer(d, 0, nil).ch
}

func Tick(d time.Duration) <-chan time.Time {
	rt := RT()
	if rt == nil {
		return time.Tick(d)
	}
	return rt.newTimer(d, d, nil).ch
}

func Sleep(d time.Duration) {
	rt := RT()
	if rt == nil {
		time.Sleep(d)
		return
	}
	<-rt.newTimer(d, 0, nil).ch
}

func (t *Timer) Stop() bool {
	if t.real != nil {
		return t.real.Stop()
	}
	t.rt.mu.Lock()
	was := t.st.active
	t.st.active = false
	delete(t.rt.timers, t.st.Label)
	t.rt.mu.Unlock()
	return was
}

func (t *Timer) Reset(d time.Duration) bool {
	if t.real != nil {
		return t.real.Reset(d)
	}
	t.rt.mu.Lock()
	was := t.st.active
	t.st.active = true
	t.st.Due = time.Now().Add(d)
	t.rt.timers[t.st.Label] = t.st
	t.rt.mu.Unlock()
	return was
}

func NewTicker(d time.Duration) *Ticker {
	rt := RT()
	if rt == nil {
		r := time.NewTicker(d)
		return &Ticker{C: r.C, real: r}
	}
	if d <= 0 {
		panic("non-positive interval for NewTicker")
	}
	st := rt.newTimer(d, d, nil)
	return &Ticker{C: st.ch, st: st, rt: rt}
}

func (t *Ticker) Stop() {
	if t.real != nil {
		t.real.Stop()
		return
	}
	t.rt.mu.Lock()
	t.st.active = false
	delete(t.rt.timers, t.st.Label)
	t.rt.mu.Unlock()
}

func (t *Ticker) Reset(d time.Duration) {
	if t.real != nil {
		t.real.Reset(d)
		return
	}
	t.rt.mu.Lock()
	t.st.active = true
	t.st.Period = d
	t.st.Due = time.Now().Add(d)
	t.rt.timers[t.st.Label] = t.st
	t.rt.mu.Unlock()
}

// ---- driver API ----

type TimerInfo struct {
	Label string
	Due   time.Time
	Owner string
}

// Timers returns the active timers sorted by (due, label).
func (rt *Runtime) Timers() []TimerInfo {
	rt.mu.Lock()
	out := make([]TimerInfo, 0, len(rt.timers))
	for _, st := range rt.timers {
		out = append(out, TimerInfo{st.Label, st.Due, st.Owner})
	}
	rt.mu.Unlock()
	sort.Slice(out, func(i, j int) bool {
		if !out[i].Due.Equal(out[j].Due) {
			return out[i].Due.Before(out[j].Due)
		}
		return out[i].Label < out[j].Label
	})
	return out
}

// FireTimer delivers one timer (the driver has advanced the clock to its deadline).
func (rt *Runtime) FireTimer(label string) {
	rt.mu.Lock()
	st := rt.timers[label]
	if st == nil {
		rt.mu.Unlock()
		return
	}
	now := time.Now()
	if st.Period > 0 {
		st.Due = st.Due.Add(st.Period)
		if st.Due.Before(now) {
			st.Due = now.Add(st.Period)
		}
	} else {
		st.active = false
		delete(rt.timers, label)
	}
	fn := st.fn
	rt.mu.Unlock()
	if fn != nil {
		rt.Go("afterfunc:"+label, fn)
		return
	}
	select {
	case st.ch <- now:
	default:
	}
}

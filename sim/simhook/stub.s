// empty: allows the body-less go:linkname declaration of goid

package simhook

import (
	"math/rand"
	"net"
	"reflect"
	"sort"
	"time"
)

// ---- T6: global math/rand of the code under test ----

func taskRand() *Rand {
	rt, t := cur()
	if rt == nil {
		return nil
	}
	if t == nil {
		return rt.root.rnd
	}
	return t.rnd
}

func RandIntn(n int) int {
	if r := taskRand(); r != nil {
		return r.Intn(n)
	}
	return rand.Intn(n)
}
func RandInt() int {
	if r := taskRand(); r != nil {
		return int(r.Int63())
	}
	return rand.Int()
}
func RandInt63() int64 {
	if r := taskRand(); r != nil {
		return r.Int63()
	}
	return rand.Int63()
}
func RandInt63n(n int64) int64 {
	if r := taskRand(); r != nil {
		return r.Int63() % n
	}
	return rand.Int63n(n)
}
func RandInt31n(n int32) int32 {
	if r := taskRand(); r != nil {
		return int32(r.Int63() % int64(n))
	}
	return rand.Int31n(n)
}
func RandFloat64() float64 {
	if r := taskRand(); r != nil {
		return r.Float64()
	}
	return rand.Float64()
}
func RandPerm(n int) []int {
	if r := taskRand(); r != nil {
		return r.Perm(n)
	}
	return rand.Perm(n)
}
func RandSeed(s int64) {
	if RT() != nil {
		return
	}
	rand.Seed(s)
}

// ---- T7: sockets ----

// TCPConn is what the code under test may ask of the socket behind a connection (the rewriter turns assertions to
// *net.TCPConn into assertions to this interface; *net.TCPConn and the simulated connection both satisfy it).
type TCPConn interface {
	net.Conn
	CloseRead() error
	CloseWrite() error
	SetLinger(sec int) error
	SetNoDelay(noDelay bool) error
	SetKeepAlive(keepalive bool) error
	SetKeepAlivePeriod(d time.Duration) error
	SetReadBuffer(bytes int) error
	SetWriteBuffer(bytes int) error
}

var _ TCPConn = (*net.TCPConn)(nil)

func DialTimeout(network, addr string, to time.Duration) (net.Conn, error) {
	if rt := RT(); rt != nil && rt.Dial != nil && network != "unix" {
		Yield("net.Dial")
		return rt.Dial(network, addr, to)
	}
	return net.DialTimeout(network, addr, to)
}

func Dial(network, addr string) (net.Conn, error) {
	if rt := RT(); rt != nil && rt.Dial != nil && network != "unix" {
		Yield("net.Dial")
		return rt.Dial(network, addr, 0)
	}
	return net.Dial(network, addr)
}

func Listen(network, addr string) (net.Listener, error) {
	if rt := RT(); rt != nil && rt.ListenF != nil && network != "unix" {
		Yield("net.Listen")
		return rt.ListenF(network, addr)
	}
	return net.Listen(network, addr)
}

// ---- T5: deterministic map iteration ----

func SortedStringKeys(m interface{}) []string {
	v := reflect.ValueOf(m)
	ks := make([]string, 0, v.Len())
	for _, k := range v.MapKeys() {
		ks = append(ks, k.String())
	}
	sort.Strings(ks)
	return ks
}

// SortedConnKeys orders the keys of a map[net.Conn]T by (remote, local) address text.
func SortedConnKeys(m interface{}) []net.Conn {
	v := reflect.ValueOf(m)
	ks := make([]net.Conn, 0, v.Len())
	for _, k := range v.MapKeys() {
		ks = append(ks, k.Interface().(net.Conn))
	}
	name := func(c net.Conn) string {
		s := ""
		if a := c.RemoteAddr(); a != nil {
			s = a.String()
		}
		if a := c.LocalAddr(); a != nil {
			s += "|" + a.String()
		}
		return s
	}
	sort.SliceStable(ks, func(i, j int) bool { return name(ks[i]) < name(ks[j]) })
	return ks
}

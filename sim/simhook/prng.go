package simhook

// SplitMix64-based PRNG owned by the simulator (not math/rand, whose algorithm may change).

type Rand struct{ s uint64 }

func NewRand(seed uint64) *Rand { return &Rand{s: seed} }

func Mix(x uint64) uint64 {
	x += 0x9E3779B97F4A7C15
	x = (x ^ (x >> 30)) * 0xBF58476D1CE4E5B9
	x = (x ^ (x >> 27)) * 0x94D049BB133111EB
	return x ^ (x >> 31)
}

// HashString is FNV-1a 64.
func HashString(s string) uint64 {
	h := uint64(14695981039346656037)
	for i := 0; i < len(s); i++ {
		h ^= uint64(s[i])
		h *= 1099511628211
	}
	return h
}

// Derive returns an independent stream named by label.
func (r *Rand) Derive(label string) *Rand {
	return &Rand{s: Mix(r.s ^ HashString(label))}
}

func DeriveSeed(seed uint64, label string) uint64 { return Mix(seed ^ HashString(label)) }

func (r *Rand) Uint64() uint64 {
	r.s += 0x9E3779B97F4A7C15
	x := r.s
	x = (x ^ (x >> 30)) * 0xBF58476D1CE4E5B9
	x = (x ^ (x >> 27)) * 0x94D049BB133111EB
	return x ^ (x >> 31)
}

func (r *Rand) Intn(n int) int {
	if n <= 0 {
		return 0
	}
	return int(r.Uint64() % uint64(n))
}

func (r *Rand) Int63() int64 { return int64(r.Uint64() >> 1) }

func (r *Rand) Float64() float64 { return float64(r.Uint64()>>11) / (1 << 53) }

func (r *Rand) Bool() bool { return r.Uint64()&1 == 1 }

// Chance returns true with probability num/den.
func (r *Rand) Chance(num, den int) bool { return r.Intn(den) < num }

// Range returns a value in [lo, hi].
func (r *Rand) Range(lo, hi int) int {
	if hi <= lo {
		return lo
	}
	return lo + r.Intn(hi-lo+1)
}

func (r *Rand) Bytes(n int) []byte {
	b := make([]byte, n)
	for i := 0; i < n; {
		x := r.Uint64()
		for k := 0; k < 8 && i < n; k++ {
			b[i] = byte(x)
			x >>= 8
			i++
		}
	}
	return b
}

func (r *Rand) Perm(n int) []int {
	p := make([]int, n)
	for i := range p {
		p[i] = i
	}
	for i := n - 1; i > 0; i-- {
		j := r.Intn(i + 1)
		p[i], p[j] = p[j], p[i]
	}
	return p
}

// Package simhook is the runtime half of the deterministic simulator: the hooks that
// rewritten repository code calls (Yield, Spawn, Acquire, timers, dial/listen, rand) and
// the task / event / timer tables the driver (package simrt) schedules from.
//
// With no Runtime installed every hook falls through to the real operation.
package simhook

import (
	"fmt"
	"net"
	"runtime/debug"
	"sort"
	"strings"
	"sync"
	"time"
	_ "unsafe"
)

// SelectState is read by the patched runtime.selectgo (overlay) to derive the poll
// order of a select inside a bubble; 0 = runtime default.
//
//go:linkname SelectState runtime.simSelectState
var SelectState uint64

//go:linkname goid runtime.simGoid
func goid() uint64

const (
	StParked  = 1 // waiting at a yield point for the driver
	StRunning = 2 // released; after quiescence this means "blocked in a channel / socket / timer wait"
	StMuWait  = 3 // waiting for a cooperative mutex / once
	StDead    = 4
)

type Task struct {
	ID       int
	Role     string // spawn site (or harness role)
	Parent   int
	Site     string // last yield site
	State    int
	resume   chan struct{}
	Panic    interface{}
	Stack    string
	rnd      *Rand
	timerSeq int
	Steps    int
	Harness  bool
	ParkedAt time.Time // simulated time at which the task reached its current yield point
	// RunnableSince: simulated time since which the task has been runnable without blocking in between (a task
	// that goes from scheduling point to scheduling point within one driver step stays "the same waiting work")
	RunnableSince time.Time
	releasedStep  int64
}

func (t *Task) String() string { return fmt.Sprintf("T%d:%s@%s", t.ID, t.Role, t.Site) }

type Event struct {
	Label   string
	At      time.Time // zero: eligible now
	Fn      func()
	Created time.Time // simulated time at which the event was queued
}

type Runtime struct {
	denseSel map[string]bool // dense runs: which sites have their statement-granularity points switched on
	Step     int64           // global step number (set by the driver)
	mu       sync.Mutex
	Seed     uint64
	byGoid   map[uint64]*Task
	byID     map[int]*Task
	nextID   int
	parked   []*Task
	muWait   []*Task
	onces    map[*sync.Once]*onceState
	events   map[string]*Event
	timers   map[string]*simTimer
	root     Task // pseudo task for the driver goroutine (timer ids, rand)

	Dial    func(network, addr string, to time.Duration) (net.Conn, error)
	ListenF func(network, addr string) (net.Listener, error)

	Panics []string

	stepLog []string // log entries of the current step (sorted before hashing)

	// reach probes and fault counters (commutative increments)
	Probes map[string]int
}

type onceState struct {
	done, running bool
	waiters       []*Task
}

var rtp *Runtime
var rtMu sync.RWMutex

func RT() *Runtime {
	rtMu.RLock()
	r := rtp
	rtMu.RUnlock()
	return r
}

func Install(r *Runtime) {
	rtMu.Lock()
	rtp = r
	rtMu.Unlock()
}

func New(seed uint64) *Runtime {
	r := &Runtime{
		Seed:   seed,
		byGoid: map[uint64]*Task{},
		byID:   map[int]*Task{},
		onces:  map[*sync.Once]*onceState{},
		events: map[string]*Event{},
		timers: map[string]*simTimer{},
		Probes: map[string]int{},
	}
	r.root.rnd = NewRand(DeriveSeed(seed, "task0"))
	return r
}

func (rt *Runtime) cur() *Task {
	g := goid()
	rt.mu.Lock()
	t := rt.byGoid[g]
	rt.mu.Unlock()
	return t
}

func cur() (*Runtime, *Task) {
	rt := RT()
	if rt == nil {
		return nil, nil
	}
	return rt, rt.cur()
}

// Current returns the calling task (nil for the driver or outside a simulation).
func Current() *Task {
	_, t := cur()
	return t
}

func (rt *Runtime) park(t *Task, site string) {
	rt.mu.Lock()
	t.Site = site
	t.State = StParked
	t.ParkedAt = time.Now()
	if t.releasedStep != rt.Step+1 || t.RunnableSince.IsZero() {
		// not a continuation of the stretch the driver released in this step: the task was blocked (or new)
		t.RunnableSince = t.ParkedAt
	}
	rt.parked = append(rt.parked, t)
	rt.mu.Unlock()
	<-t.resume
}

// Go starts a harness task (a call into the code under test that may yield or block).
func (rt *Runtime) Go(role string, f func()) *Task {
	_, parent := cur()
	pid := 0
	if parent != nil {
		pid = parent.ID
	}
	t := rt.spawn(role, pid)
	t.Harness = true
	go func() {
		Started(t.ID)
		defer Exited(t.ID)
		f()
	}()
	return t
}

func (rt *Runtime) spawn(role string, parent int) *Task {
	rt.mu.Lock()
	rt.nextID++
	id := rt.nextID
	t := &Task{ID: id, Role: role, Parent: parent, resume: make(chan struct{}), State: StRunning, Site: "spawned",
		rnd: NewRand(DeriveSeed(rt.Seed, fmt.Sprintf("task%d", id)))}
	rt.byID[id] = t
	rt.mu.Unlock()
	return t
}

// ---- hooks called by rewritten code ----

func Yield(site string) {
	if rt, t := cur(); t != nil {
		rt.park(t, site)
	}
}

// DenseYields switches the statement-granularity scheduling points (rewriter option -dense) on. They exist in a
// few functions that share plain memory with lock-free readers; only the profile that studies those functions
// (C19) turns them on, for every other profile they are free of cost and do not lengthen the runs.
var DenseYields bool

// MemYield is a scheduling point before a plain statement.
func MemYield(site string) {
	if !DenseYields {
		return
	}
	if rt, t := cur(); t != nil {
		rt.park(t, site)
	}
}

// DenseAll switches the statement-granularity scheduling points of every instrumented function on for the current
// run (the harness draws it per scenario: Meta.Dense). A goroutine may be preempted, and others may run in parallel,
// between any two plain memory accesses; these runs explore that.
var DenseAll bool

// DenseFuncs: functions whose statement-granularity points are on in every dense run of the current scenario
// (a scenario class may aim dense exploration at the code it is about, like a site-triggered fault).
var DenseFuncs map[string]bool

// MemYieldAll is a scheduling point before a plain statement of any function. In a dense run a seed-chosen subset of
// the functions (about one in six, by function name) has its points switched on: every function gets its turn over
// many runs while a single run stays affordable.
func MemYieldAll(site string) {
	if !DenseAll {
		return
	}
	rt, t := cur()
	if t == nil {
		return
	}
	// woken tasks run concurrently until their next scheduling point: the selection map is shared
	rt.mu.Lock()
	on, ok := rt.denseSel[site]
	if !ok {
		fn, kind := site, ""
		if i := strings.IndexByte(site, '#'); i >= 0 {
			fn, kind = site[:i], site[i+1:]
		}
		on = Mix(HashString(fn)^rt.Seed)%6 == 0 || strings.HasPrefix(kind, "rmw") || DenseFuncs[fn]
		if rt.denseSel == nil {
			rt.denseSel = map[string]bool{}
		}
		rt.denseSel[site] = on
	}
	rt.mu.Unlock()
	if on {
		rt.park(t, site)
	}
}

func Spawn(site string) int {
	rt, t := cur()
	if rt == nil {
		return 0
	}
	pid := 0
	if t != nil {
		pid = t.ID
	}
	return rt.spawn(site, pid).ID
}

func Started(id int) {
	rt := RT()
	if rt == nil || id == 0 {
		return
	}
	rt.mu.Lock()
	t := rt.byID[id]
	if t != nil {
		rt.byGoid[goid()] = t
	}
	rt.mu.Unlock()
	if t != nil {
		rt.park(t, "start")
	}
}

func Exited(id int) {
	rt := RT()
	if id == 0 {
		return
	}
	if rt == nil {
		return
	}
	rt.mu.Lock()
	t := rt.byID[id]
	rt.mu.Unlock()
	if t == nil {
		return
	}
	r := recover()
	rt.mu.Lock()
	t.State = StDead
	if r != nil {
		t.Panic = r
		t.Stack = stack()
		rt.Panics = append(rt.Panics, fmt.Sprintf("T%d %s @%s: %v", id, t.Role, t.Site, r))
	}
	delete(rt.byGoid, goid())
	rt.mu.Unlock()
}

func Released(site string) {
	rt := RT()
	if rt == nil {
		return
	}
	rt.mu.Lock()
	for _, t := range rt.muWait {
		t.State = StParked
	}
	rt.parked = append(rt.parked, rt.muWait...)
	rt.muWait = nil
	rt.mu.Unlock()
}

func Acquire(site string, try func() bool) {
	rt, t := cur()
	if t == nil {
		// not a task: plain blocking acquisition (spin; only the harness outside any step gets here)
		for !try() {
			time.Sleep(time.Microsecond)
		}
		return
	}
	rt.park(t, site)
	for {
		if try() {
			return
		}
		rt.mu.Lock()
		t.Site = site + "(wait)"
		t.State = StMuWait
		rt.muWait = append(rt.muWait, t)
		rt.mu.Unlock()
		<-t.resume
	}
}

func OnceDo(site string, o *sync.Once, f func()) {
	rt, t := cur()
	if t == nil {
		o.Do(f)
		return
	}
	rt.park(t, site)
	for {
		rt.mu.Lock()
		st := rt.onces[o]
		if st == nil {
			st = &onceState{}
			rt.onces[o] = st
		}
		if st.done {
			rt.mu.Unlock()
			return
		}
		if !st.running {
			st.running = true
			rt.mu.Unlock()
			defer func() {
				// keep the real Once in step, so that a later pass-through call cannot run f again
				o.Do(func() {})
				rt.mu.Lock()
				st.done = true
				for _, w := range st.waiters {
					w.State = StParked
				}
				rt.parked = append(rt.parked, st.waiters...)
				st.waiters = nil
				rt.mu.Unlock()
			}()
			f()
			return
		}
		st.waiters = append(st.waiters, t)
		t.Site = site + "(wait)"
		t.State = StMuWait
		rt.mu.Unlock()
		<-t.resume
	}
}

// ---- driver API ----

// Parked returns the parked tasks sorted by id.
func (rt *Runtime) Parked() []*Task {
	rt.mu.Lock()
	defer rt.mu.Unlock()
	sort.Slice(rt.parked, func(i, j int) bool { return rt.parked[i].ID < rt.parked[j].ID })
	return append([]*Task(nil), rt.parked...)
}

func (rt *Runtime) Release(t *Task) {
	rt.mu.Lock()
	for i, p := range rt.parked {
		if p == t {
			rt.parked = append(rt.parked[:i], rt.parked[i+1:]...)
			break
		}
	}
	t.State = StRunning
	t.Steps++
	t.releasedStep = rt.Step + 1
	rt.mu.Unlock()
	t.resume <- struct{}{}
}

// Tasks returns all tasks sorted by id.
func (rt *Runtime) Tasks() []*Task {
	rt.mu.Lock()
	defer rt.mu.Unlock()
	ids := make([]int, 0, len(rt.byID))
	for id := range rt.byID {
		ids = append(ids, id)
	}
	sort.Ints(ids)
	out := make([]*Task, 0, len(ids))
	for _, id := range ids {
		out = append(out, rt.byID[id])
	}
	return out
}

// Alive lists the tasks that have not exited, as "T<id>:<role>@<site>[state]".
func (rt *Runtime) Alive(includeHarness bool) []string {
	var out []string
	for _, t := range rt.Tasks() {
		if t.State == StDead || (t.Harness && !includeHarness) {
			continue
		}
		out = append(out, t.String())
	}
	return out
}

// Descends reports whether task t was spawned (transitively) by task anc.
func (rt *Runtime) Descends(t *Task, anc int) bool {
	rt.mu.Lock()
	defer rt.mu.Unlock()
	for t != nil {
		if t.ID == anc {
			return true
		}
		t = rt.byID[t.Parent]
	}
	return false
}

func (rt *Runtime) AddEvent(label string, fn func()) { rt.AddEventAt(time.Time{}, label, fn) }

func (rt *Runtime) AddEventAt(at time.Time, label string, fn func()) {
	rt.mu.Lock()
	if _, dup := rt.events[label]; dup {
		rt.mu.Unlock()
		panic("simhook: duplicate event label " + label)
	}
	rt.events[label] = &Event{Label: label, At: at, Fn: fn, Created: time.Now()}
	rt.mu.Unlock()
}

func (rt *Runtime) HasEvent(label string) bool {
	rt.mu.Lock()
	_, ok := rt.events[label]
	rt.mu.Unlock()
	return ok
}

func (rt *Runtime) RemoveEvent(label string) {
	rt.mu.Lock()
	delete(rt.events, label)
	rt.mu.Unlock()
}

// Events returns pending events sorted by label.
func (rt *Runtime) Events() []*Event {
	rt.mu.Lock()
	defer rt.mu.Unlock()
	out := make([]*Event, 0, len(rt.events))
	for _, e := range rt.events {
		out = append(out, e)
	}
	sort.Slice(out, func(i, j int) bool { return out[i].Label < out[j].Label })
	return out
}

func (rt *Runtime) TakeEvent(label string) *Event {
	rt.mu.Lock()
	e := rt.events[label]
	delete(rt.events, label)
	rt.mu.Unlock()
	return e
}

// Logf records an event-log entry for the current step.
func (rt *Runtime) Logf(f string, a ...interface{}) {
	s := fmt.Sprintf(f, a...)
	rt.mu.Lock()
	rt.stepLog = append(rt.stepLog, s)
	rt.mu.Unlock()
}

// TakeStepLog returns the entries logged since the last call, sorted canonically.
func (rt *Runtime) TakeStepLog() []string {
	rt.mu.Lock()
	l := rt.stepLog
	rt.stepLog = nil
	rt.mu.Unlock()
	sort.Strings(l)
	return l
}

func (rt *Runtime) Probe(name string) {
	rt.mu.Lock()
	rt.Probes[name]++
	rt.mu.Unlock()
}

func (rt *Runtime) ProbeN(name string, n int) {
	rt.mu.Lock()
	rt.Probes[name] += n
	rt.mu.Unlock()
}

// Probe increments a reach probe of the installed runtime, if any.
func Probe(name string) {
	if rt := RT(); rt != nil {
		rt.Probe(name)
	}
}

func (rt *Runtime) TakePanics() []string {
	rt.mu.Lock()
	p := rt.Panics
	rt.mu.Unlock()
	return p
}

func stack() string { return string(debug.Stack()) }

package cluster

// Independent implementation of the Redis Cluster key -> slot rule, from the cluster
// specification: CRC16/XMODEM (poly 0x1021, init 0, no reflection) computed bit by bit,
// over the hash tag if the key contains "{...}" with a non-empty body.

func CRC16(b []byte) uint16 {
	var crc uint16
	for _, c := range b {
		crc ^= uint16(c) << 8
		for i := 0; i < 8; i++ {
			if crc&0x8000 != 0 {
				crc = crc<<1 ^ 0x1021
			} else {
				crc <<= 1
			}
		}
	}
	return crc
}

func HashTag(key []byte) []byte {
	for i := 0; i < len(key); i++ {
		if key[i] == '{' {
			for j := i + 1; j < len(key); j++ {
				if key[j] == '}' {
					if j == i+1 {
						return key
					}
					return key[i+1 : j]
				}
			}
			return key
		}
	}
	return key
}

func Slot(key []byte) int { return int(CRC16(HashTag(key)) % 16384) }

// Package cluster simulates Redis Cluster nodes as simulator actors: slot ownership,
// MIGRATING / IMPORTING / ASK / MOVED semantics, replicas with READONLY, fail-over and restart,
// CLUSTER NODES text generated from each node's own (possibly lagging) view.  The rules are
// implemented from the Redis Cluster specification, not from the proxy.
package cluster

import (
	"fmt"
	"sort"
	"strings"

	"verif.local/sim/refredis"
	"verif.local/sim/resp2"
	"verif.local/sim/simhook"
	"verif.local/sim/simnet"
)

const NumSlots = 16384

type LogEntry struct {
	Step      int64
	Node      int
	Conn      string
	Asking    bool
	ReadOnly  bool
	Args      [][]byte
	Accepted  bool // executed here (not redirected)
	AsReplica bool // the executing node was a replica at that moment
	Reply     resp2.Value
}

type Conn struct {
	node     *Node
	End      *simnet.End
	buf      []byte
	pending  [][][]byte
	asking   bool
	readonly bool
	seq      int
	evLabel  string
	ID       string
	Broken   bool // protocol error from the proxy
	Cmds     int
	held     [][]byte // replies held back while the node is stalled
}

type Node struct {
	c           *Cluster
	Idx         int
	ID          string
	Addr        string
	Store       *refredis.Store
	MasterOf    int // -1: master
	Up          bool
	Silent      bool // accepts connections and requests, never answers
	Stalled     bool // executes requests but holds the replies back until Unstall (a node that is slow for a while)
	ClusterDown bool // the node considers the cluster down (it lost sight of the majority): keyed commands are refused
	Conns       []*Conn
	// View is this node's belief about slot owners used for CLUSTER NODES (nil: the truth)
	View []int16
	// migration state (meaningful on masters)
	Migrating map[int]int // slot -> target node
	Importing map[int]int // slot -> source node
	// ReplyHook may replace the reply bytes of a command (adversarial backends); ok=false keeps the reply.
	ReplyHook func(nc *Conn, args [][]byte, reply []byte) (out []byte, ok bool)
	Accepts   int
	ScanPages func(n *Node, cursor uint64, match []byte, count int64) (next uint64, keys []string)
}

type Cluster struct {
	rt    *simhook.Runtime
	net   *simnet.Net
	Nodes []*Node
	Owner [NumSlots]int16 // truth: owning master per slot, -1 unowned
	Log   []LogEntry
	// counters
	Redirects int // MOVED + ASK replies sent
	Moved     int
	Ask       int
	Down      int
	KeepLog   bool
}

func New(rt *simhook.Runtime, net *simnet.Net) *Cluster {
	c := &Cluster{rt: rt, net: net, KeepLog: true}
	for i := range c.Owner {
		c.Owner[i] = -1
	}
	return c
}

func nodeID(i int) string {
	return fmt.Sprintf("%040x", simhook.Mix(uint64(i)+0x1234))
}

func AddrOf(i int) string { return fmt.Sprintf("10.0.%d.%d:7000", i/200, i%200+1) }

// AddNode adds a node (master when masterOf < 0) and starts serving its address.
func (c *Cluster) AddNode(masterOf int) *Node {
	i := len(c.Nodes)
	n := &Node{c: c, Idx: i, ID: nodeID(i), Addr: AddrOf(i), MasterOf: masterOf, Up: true,
		Migrating: map[int]int{}, Importing: map[int]int{}}
	if masterOf >= 0 {
		n.Store = c.Nodes[masterOf].Store // synchronous replication: one copy
	} else {
		n.Store = refredis.New()
	}
	c.Nodes = append(c.Nodes, n)
	c.net.Serve(n.Addr, n)
	return n
}

// Assign gives slots [from, to] to master m.
func (c *Cluster) Assign(from, to, m int) {
	for s := from; s <= to; s++ {
		c.Owner[s] = int16(m)
	}
}

func (c *Cluster) Masters() []*Node {
	var out []*Node
	for _, n := range c.Nodes {
		if n.MasterOf < 0 {
			out = append(out, n)
		}
	}
	return out
}

func (c *Cluster) ReplicasOf(m int) []*Node {
	var out []*Node
	for _, n := range c.Nodes {
		if n.MasterOf == m {
			out = append(out, n)
		}
	}
	return out
}

func (c *Cluster) OwnerOfKey(key []byte) int { return int(c.Owner[Slot(key)]) }

// ---- simnet.Server ----

func (n *Node) Accept(e *simnet.End) {
	n.Accepts++
	nc := &Conn{node: n, End: e, ID: fmt.Sprintf("%s/%s", n.Addr, e.Name)}
	n.Conns = append(n.Conns, nc)
	e.OnData = func(e *simnet.End) { nc.onData() }
	e.OnEOF = func(e *simnet.End) { e.ActorClose() }
	n.c.rt.Logf("node %d accepts %s", n.Idx, e.Name)
}

func (nc *Conn) onData() {
	nc.buf = append(nc.buf, nc.End.Take()...)
	for !nc.Broken {
		v, k, err := resp2.Parse(nc.buf)
		if err == resp2.ErrIncomplete {
			break
		}
		if err != nil {
			nc.Broken = true
			nc.node.c.rt.Logf("node %d: protocol error from proxy on %s: %v", nc.node.Idx, nc.ID, err)
			nc.End.Send([]byte("-ERR Protocol error\r\n"))
			nc.End.ActorClose()
			return
		}
		nc.buf = nc.buf[k:]
		args, ok := v.Args()
		if !ok {
			nc.Broken = true
			nc.End.Send([]byte("-ERR Protocol error: expected array of bulk strings\r\n"))
			nc.End.ActorClose()
			return
		}
		nc.pending = append(nc.pending, args)
	}
	nc.schedule()
}

func (nc *Conn) schedule() {
	if len(nc.pending) == 0 || nc.evLabel != "" {
		return
	}
	nc.seq++
	nc.evLabel = fmt.Sprintf("node:%s#%06d", nc.ID, nc.seq)
	label := nc.evLabel
	nc.node.c.rt.AddEvent(label, func() {
		if nc.evLabel != label {
			return
		}
		nc.evLabel = ""
		nc.execOne()
		nc.schedule()
	})
}

func (nc *Conn) execOne() {
	if len(nc.pending) == 0 {
		return
	}
	args := nc.pending[0]
	nc.pending = nc.pending[1:]
	n := nc.node
	if !n.Up {
		return
	}
	nc.Cmds++
	asking, ro := nc.asking, nc.readonly
	reply, accepted := n.exec(nc, args)
	if n.c.KeepLog {
		n.c.Log = append(n.c.Log, LogEntry{Step: n.c.rt.Step, Node: n.Idx, Conn: nc.ID, Asking: asking, ReadOnly: ro, Args: args, Accepted: accepted, AsReplica: n.MasterOf >= 0, Reply: reply})
	}
	if n.Silent {
		return
	}
	out := reply.Bytes()
	if n.ReplyHook != nil {
		if b, ok := n.ReplyHook(nc, args, out); ok {
			out = b
		}
	}
	if out != nil {
		if n.Stalled {
			nc.held = append(nc.held, out)
			return
		}
		nc.End.Send(out)
	}
}

// Unstall releases the replies held back while the node was stalled, in order.
func (n *Node) Unstall() {
	n.Stalled = false
	for _, nc := range n.Conns {
		for _, b := range nc.held {
			nc.End.Send(b)
		}
		nc.held = nil
	}
}

// ReadOnlyCmd: Redis's own command table flags (subset of commands the harness generates).
var ReadOnlyCmd = map[string]bool{}

func init() {
	for _, c := range strings.Fields(`get strlen getrange exists ttl pttl type hget hmget hgetall hkeys hvals hlen hexists hstrlen
		llen lrange lindex sismember scard smembers zscore zcard zrange zrank dump bitcount bitpos getbit mget
		srandmember sdiff sinter sunion zcount zlexcount zrangebylex zrangebyscore zrevrange zrevrangebylex zrevrangebyscore
		zrevrank zscan sscan hscan pfcount geodist geohash geopos touch`) {
		ReadOnlyCmd[c] = true
	}
}

func (n *Node) exec(nc *Conn, args [][]byte) (resp2.Value, bool) {
	c := n.c
	name := strings.ToLower(string(args[0]))
	wasAsking := nc.asking
	if name != "asking" {
		nc.asking = false
	}
	switch name {
	case "asking":
		nc.asking = true
		return resp2.S("OK"), true
	case "readonly":
		nc.readonly = true
		return resp2.S("OK"), true
	case "readwrite":
		nc.readonly = false
		return resp2.S("OK"), true
	case "ping":
		return resp2.S("PONG"), true
	case "cluster":
		if len(args) >= 2 && strings.EqualFold(string(args[1]), "nodes") {
			return resp2.BS(n.ClusterNodes()), true
		}
		return resp2.E("ERR unknown subcommand"), true
	case "scan":
		return n.scan(args), true
	}
	ki := refredis.KeyIndex(name)
	if len(args) <= ki {
		return resp2.E("ERR wrong number of arguments for '" + name + "' command"), true
	}
	if n.ClusterDown {
		c.Down++
		return resp2.E("CLUSTERDOWN The cluster is down"), false
	}
	key := args[ki]
	slot := Slot(key)
	owner := int(c.Owner[slot])
	if owner < 0 {
		c.Down++
		return resp2.E("CLUSTERDOWN Hash slot not served"), false
	}
	me := n.Idx
	switch {
	case n.MasterOf < 0 && owner == me:
		if tgt, mig := n.Migrating[slot]; mig {
			if !n.Store.HasAny(string(key)) {
				c.Redirects++
				c.Ask++
				return resp2.E(fmt.Sprintf("ASK %d %s", slot, c.Nodes[tgt].Addr)), false
			}
		}
		return n.Store.Exec(args), true
	case n.MasterOf < 0 && hasKey(n.Importing, slot):
		if wasAsking {
			return n.Store.Exec(args), true
		}
		c.Redirects++
		c.Moved++
		return resp2.E(fmt.Sprintf("MOVED %d %s", slot, c.Nodes[owner].Addr)), false
	case n.MasterOf == owner && nc.readonly && ReadOnlyCmd[name]:
		return n.Store.Exec(args), true
	default:
		c.Redirects++
		c.Moved++
		return resp2.E(fmt.Sprintf("MOVED %d %s", slot, c.Nodes[owner].Addr)), false
	}
}

func hasKey(m map[int]int, k int) bool { _, ok := m[k]; return ok }

// keysHere: keys of the store that belong to slots this node (or its master) owns or is importing.
func (n *Node) keysHere() []string {
	m := n.Idx
	if n.MasterOf >= 0 {
		m = n.MasterOf
	}
	var out []string
	for _, k := range n.Store.Keys() {
		s := Slot([]byte(k))
		if int(n.c.Owner[s]) == m || hasKey(n.c.Nodes[m].Importing, s) {
			out = append(out, k)
		}
	}
	return out
}

func (n *Node) scan(args [][]byte) resp2.Value {
	if len(args) < 2 {
		return resp2.E("ERR wrong number of arguments for 'scan' command")
	}
	var cur uint64
	if _, err := fmt.Sscanf(string(args[1]), "%d", &cur); err != nil || strings.TrimLeft(string(args[1]), "0123456789") != "" {
		return resp2.E("ERR invalid cursor")
	}
	var match []byte
	count := int64(10)
	for i := 2; i < len(args); i += 2 {
		if i+1 >= len(args) {
			return resp2.E("ERR syntax error")
		}
		switch strings.ToUpper(string(args[i])) {
		case "MATCH":
			match = args[i+1]
		case "COUNT":
			if _, err := fmt.Sscanf(string(args[i+1]), "%d", &count); err != nil || count < 1 {
				return resp2.E("ERR value is not an integer or out of range")
			}
		default:
			return resp2.E("ERR syntax error")
		}
	}
	var next uint64
	var keys []string
	if n.ScanPages != nil {
		next, keys = n.ScanPages(n, cur, match, count)
	} else {
		all := n.keysHere()
		i := int(cur)
		for ; i < len(all) && int64(len(keys)) < count; i++ {
			keys = append(keys, all[i])
		}
		if i < len(all) {
			next = uint64(i)
		}
	}
	arr := resp2.Value{Kind: resp2.Array, Arr: []resp2.Value{}}
	for _, k := range keys {
		if match == nil || refredis.Match(match, []byte(k)) {
			arr.Arr = append(arr.Arr, resp2.BS(k))
		}
	}
	return resp2.A(resp2.BS(fmt.Sprint(next)), arr)
}

// ClusterNodes renders CLUSTER NODES from this node's view.
func (n *Node) ClusterNodes() string {
	c := n.c
	view := n.View
	owner := func(s int) int {
		if view != nil {
			return int(view[s])
		}
		return int(c.Owner[s])
	}
	ranges := map[int][]string{}
	start, cur := -1, -2
	flush := func(end int) {
		if cur >= 0 {
			if start == end {
				ranges[cur] = append(ranges[cur], fmt.Sprint(start))
			} else {
				ranges[cur] = append(ranges[cur], fmt.Sprintf("%d-%d", start, end))
			}
		}
	}
	for s := 0; s < NumSlots; s++ {
		o := owner(s)
		if o != cur {
			flush(s - 1)
			cur, start = o, s
		}
	}
	flush(NumSlots - 1)
	var sb strings.Builder
	for _, x := range c.Nodes {
		flags := "master"
		master := "-"
		if x.MasterOf >= 0 {
			flags = "slave"
			master = c.Nodes[x.MasterOf].ID
		}
		if x == n {
			flags = "myself," + flags
		}
		if !x.Up {
			flags += ",fail"
		}
		link := "connected"
		if !x.Up {
			link = "disconnected"
		}
		host, port := x.Addr, "7000"
		if i := strings.LastIndex(x.Addr, ":"); i > 0 {
			host, port = x.Addr[:i], x.Addr[i+1:]
		}
		fmt.Fprintf(&sb, "%s %s:%s@1%s %s %s 0 1426238317239 %d %s", x.ID, host, port, port, flags, master, x.Idx+1, link)
		if x.MasterOf < 0 {
			for _, r := range ranges[x.Idx] {
				sb.WriteString(" " + r)
			}
			if x == n {
				var ms []int
				for s := range x.Migrating {
					ms = append(ms, s)
				}
				sort.Ints(ms)
				for _, s := range ms {
					fmt.Fprintf(&sb, " [%d->-%s]", s, c.Nodes[x.Migrating[s]].ID)
				}
				ms = ms[:0]
				for s := range x.Importing {
					ms = append(ms, s)
				}
				sort.Ints(ms)
				for _, s := range ms {
					fmt.Fprintf(&sb, " [%d-<-%s]", s, c.Nodes[x.Importing[s]].ID)
				}
			}
		}
		sb.WriteString("\n")
	}
	return sb.String()
}

// ---- faults / topology actions (driver context) ----

// Crash takes the node down: every connection is reset and its address refuses connections.
func (n *Node) Crash() {
	n.Up = false
	n.c.net.SetDown(n.Addr, simnet.DialRefused)
	for _, nc := range n.Conns {
		nc.pending = nil
		nc.End.Reset()
	}
	n.Conns = nil
	n.c.rt.Logf("node %d crash", n.Idx)
}

// Restart brings the node back on the same address (data kept: replication is synchronous in the model).
func (n *Node) Restart() {
	n.Up = true
	n.c.net.SetDown(n.Addr, simnet.DialOK)
	n.c.rt.Logf("node %d restart", n.Idx)
}

// ResetConns resets every established connection of the node (the node itself stays up).
func (n *Node) ResetConns() int {
	k := 0
	for _, nc := range n.Conns {
		st := nc.End.State()
		if !st.Closed && !st.Reset {
			nc.pending = nil
			nc.End.Reset()
			k++
		}
	}
	return k
}

// CloseConns closes (FIN) every established connection of the node.
func (n *Node) CloseConns() int {
	k := 0
	for _, nc := range n.Conns {
		st := nc.End.State()
		if !st.Closed && !st.Reset {
			nc.pending = nil
			nc.End.ActorClose()
			k++
		}
	}
	return k
}

// OpenConns counts connections that are neither closed nor reset.
func (n *Node) OpenConns() int {
	k := 0
	for _, nc := range n.Conns {
		st := nc.End.State()
		if !st.Closed && !st.Reset {
			k++
		}
	}
	return k
}

// Failover promotes replica r of master m. graceful: the old master stays up as a replica of r.
func (c *Cluster) Failover(r int, graceful bool) {
	rep := c.Nodes[r]
	m := rep.MasterOf
	if m < 0 {
		return
	}
	old := c.Nodes[m]
	for s := 0; s < NumSlots; s++ {
		if int(c.Owner[s]) == m {
			c.Owner[s] = int16(r)
		}
	}
	rep.MasterOf = -1
	rep.Migrating, rep.Importing = old.Migrating, old.Importing
	old.Migrating, old.Importing = map[int]int{}, map[int]int{}
	for _, x := range c.Nodes {
		if x.MasterOf == m {
			x.MasterOf = r
		}
		for s, t := range x.Migrating {
			if t == m {
				x.Migrating[s] = r
			}
		}
		for s, t := range x.Importing {
			if t == m {
				x.Importing[s] = r
			}
		}
	}
	if graceful {
		old.MasterOf = r
	} else {
		old.MasterOf = r
		old.Crash()
	}
	c.rt.Logf("failover %d -> %d graceful=%v", m, r, graceful)
}

// Migration steps (per Redis: CLUSTER SETSLOT IMPORTING / MIGRATING, MIGRATE key, SETSLOT NODE).
func (c *Cluster) SetImporting(slot, target, source int) { c.Nodes[target].Importing[slot] = source }
func (c *Cluster) SetMigrating(slot, source, target int) { c.Nodes[source].Migrating[slot] = target }

// MoveKey migrates one key of the slot from source to target; returns false when none is left.
func (c *Cluster) MoveKey(slot, source, target int) bool {
	src, dst := c.Nodes[source], c.Nodes[target]
	for _, k := range src.Store.Keys() {
		if Slot([]byte(k)) == slot {
			dst.Store.Import(k, src.Store.Export(k))
			return true
		}
	}
	return false
}

// MoveAllKeys moves every remaining key (typed or opaque-only state is carried along with typed keys).
func (c *Cluster) MoveAllKeys(slot, source, target int) {
	for c.MoveKey(slot, source, target) {
	}
}

// SetSlotOwner finalises ownership (SETSLOT NODE on every node: the truth changes at once).
func (c *Cluster) SetSlotOwner(slot, source, target int) {
	delete(c.Nodes[target].Importing, slot)
	delete(c.Nodes[source].Migrating, slot)
	c.Owner[slot] = int16(target)
}

// FreezeView makes the node keep answering CLUSTER NODES with the current layout.
func (n *Node) FreezeView() {
	v := make([]int16, NumSlots)
	copy(v, n.c.Owner[:])
	n.View = v
}

func (n *Node) ThawView() { n.View = nil }

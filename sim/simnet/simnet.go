// Package simnet is the simulator's in-memory TCP: ordered byte streams with bounded
// buffers, half-close, FIN vs RST, deadlines, refused / timed-out connects, listen failures
// and temporary accept errors.  Every transfer between the two ends of a connection is a
// simulator event chosen by the driver; bytes of one direction are never reordered.
//
// Ends used by the code under test implement net.Conn (every call is a scheduling point);
// ends owned by harness actors are driven through callbacks executed by the driver.
package simnet

import (
	"fmt"
	"io"
	"net"
	"os"
	"sync"
	"syscall"
	"time"

	"verif.local/sim/simhook"
)

type Addr string

func (a Addr) Network() string { return "tcp" }
func (a Addr) String() string  { return string(a) }

type segment struct {
	data []byte
	fin  bool
}

// End is one end of a simulated connection.
type End struct {
	lingerZero bool // SetLinger(0): Close resets instead of finishing
	n          *Net
	Name       string // unique, e.g. "d3:p" (proxy side of dialed conn 3)
	ID         int
	peer       *End
	local      Addr
	remote     Addr
	SUT        bool // owned by the code under test
	Owned      bool // handed to the code under test (dialed by it, or returned by its Accept)

	rbuf    []byte
	reof    bool  // FIN received (after rbuf)
	rerr    error // reset
	closed  bool  // locally closed
	wclosed bool  // CloseWrite done
	rclosed bool  // CloseRead done
	rwait   chan struct{}
	wwait   chan struct{}
	rdl     time.Time
	wdl     time.Time

	outq     []segment // in flight to peer
	outBytes int
	seq      int
	stalled  bool
	evLabel  string

	// actor callbacks (run by the driver inside a delivery event)
	OnData  func(e *End)
	OnEOF   func(e *End)
	OnReset func(e *End)

	// statistics
	BytesIn, BytesOut int
	OpenedAt          time.Time
	ClosedAt          time.Time
	Tag               string // free for the harness
	// receive-side quiet periods: the longest time without new data reaching this end (from OpenedAt on)
	LastRecvAt time.Time
	MaxRecvGap time.Duration
	// quietFrom: since when this end has had nothing to read (set when a Read empties the receive buffer); a period
	// without arrivals only counts as quiet while the buffer is empty - data that waits unread is not silence
	quietFrom time.Time
}

// QuietFor is the longest period during which no new data reached this end, counting the period that is still open.
func (e *End) QuietFor() time.Duration {
	e.n.mu.Lock()
	defer e.n.mu.Unlock()
	g := e.MaxRecvGap
	if !e.reof && e.rerr == nil && len(e.rbuf) == 0 {
		if cur := time.Since(e.quietStartLocked()); cur > g {
			g = cur
		}
	}
	return g
}

// quietStartLocked: the start of the current quiet period of an end whose receive buffer is empty.
func (e *End) quietStartLocked() time.Time {
	last := e.LastRecvAt
	if last.IsZero() {
		last = e.OpenedAt
	}
	if e.quietFrom.After(last) {
		last = e.quietFrom
	}
	return last
}

type Server interface {
	// Accept is called (driver or task context, under no lock) with the server-side end of a new connection.
	Accept(e *End)
}

type DialOutcome int

const (
	DialOK DialOutcome = iota
	DialRefused
	DialTimeout
	DialUnreachable
)

type Net struct {
	names map[string]string // host names of addresses (see Alias)
	rt    *simhook.Runtime
	mu    sync.Mutex
	rng   *simhook.Rand

	listeners map[string]*Listener
	servers   map[string]Server
	down      map[string]DialOutcome // address -> forced outcome
	connSeq   int

	// knobs
	FragNum, FragDen int // probability that a delivery hands over only a fragment
	BufCap           int // per-direction capacity in bytes (0 = unbounded)
	ListenFail       map[string]int
	DialHook         func(addr string) (DialOutcome, bool) // optional per-dial override

	Ends      []*End // all ends ever created, in creation order
	Listeners []*Listener
	Counts    map[string]int // fault/feature counters: frag, backpressure, rst, ...
}

func New(rt *simhook.Runtime) *Net {
	n := &Net{
		rt: rt, rng: simhook.NewRand(simhook.DeriveSeed(rt.Seed, "net")),
		listeners: map[string]*Listener{}, servers: map[string]Server{}, down: map[string]DialOutcome{},
		ListenFail: map[string]int{}, Counts: map[string]int{}, FragDen: 1,
	}
	rt.Dial = n.dial
	rt.ListenF = n.listen
	return n
}

func (n *Net) count(k string) { n.Counts[k]++ }

// ---- errors with the kernel's shapes ----

func opErr(op string, e *End, err error) error {
	var src, dst net.Addr
	if e != nil {
		src, dst = e.local, e.remote
	}
	return &net.OpError{Op: op, Net: "tcp", Source: src, Addr: dst, Err: err}
}

var errReset = os.NewSyscallError("read", syscall.ECONNRESET)
var errPipe = os.NewSyscallError("write", syscall.EPIPE)

// ---- creation ----

func (n *Net) pairLocked(kind string, sutA, sutB bool, addrA, addrB string) (*End, *End) {
	n.connSeq++
	id := n.connSeq
	a := &End{n: n, ID: id, Name: fmt.Sprintf("%s%d:a", kind, id), SUT: sutA, local: Addr(addrA), remote: Addr(addrB), OpenedAt: time.Now()}
	b := &End{n: n, ID: id, Name: fmt.Sprintf("%s%d:b", kind, id), SUT: sutB, local: Addr(addrB), remote: Addr(addrA), OpenedAt: time.Now()}
	a.peer, b.peer = b, a
	n.Ends = append(n.Ends, a, b)
	return a, b
}

// Serve registers an actor server at addr (what the code under test reaches by dialing).
func (n *Net) Serve(addr string, s Server) {
	n.mu.Lock()
	n.servers[addr] = s
	n.mu.Unlock()
}

// AnyDown reports whether any address currently has a forced dial outcome (refused, black-holed).
func (n *Net) AnyDown() bool {
	n.mu.Lock()
	defer n.mu.Unlock()
	return len(n.down) > 0
}

// Alias makes name (host:port with a host name) resolve to the address canonical.
func (n *Net) Alias(name, canonical string) {
	n.mu.Lock()
	if n.names == nil {
		n.names = map[string]string{}
	}
	n.names[name] = canonical
	n.mu.Unlock()
}

// SetDown forces the outcome of dials to addr (DialOK clears it).
func (n *Net) SetDown(addr string, o DialOutcome) {
	n.mu.Lock()
	if o == DialOK {
		delete(n.down, addr)
	} else {
		n.down[addr] = o
	}
	n.mu.Unlock()
}

// dial is the code under test's connect (task context; simhook already yielded).
func (n *Net) dial(network, addr string, to time.Duration) (net.Conn, error) {
	n.mu.Lock()
	if c, ok := n.names[addr]; ok {
		// a host name: the connection is made to (and reports as its remote address) the address it resolves to
		addr = c
	}
	out := DialOK
	srv, ok := n.servers[addr]
	if !ok {
		out = DialRefused
	}
	if o, forced := n.down[addr]; forced {
		out = o
	}
	if n.DialHook != nil {
		if o, use := n.DialHook(addr); use {
			out = o
		}
	}
	switch out {
	case DialRefused:
		n.count("dial-refused")
		n.mu.Unlock()
		n.rt.Logf("dial %s refused", addr)
		return nil, &net.OpError{Op: "dial", Net: "tcp", Addr: Addr(addr), Err: os.NewSyscallError("connect", syscall.ECONNREFUSED)}
	case DialUnreachable:
		n.count("dial-unreachable")
		n.mu.Unlock()
		return nil, &net.OpError{Op: "dial", Net: "tcp", Addr: Addr(addr), Err: os.NewSyscallError("connect", syscall.EHOSTUNREACH)}
	case DialTimeout:
		n.count("dial-timeout")
		n.mu.Unlock()
		n.rt.Logf("dial %s timing out", addr)
		if to <= 0 {
			to = 127 * time.Second
		}
		simhook.Sleep(to)
		return nil, &net.OpError{Op: "dial", Net: "tcp", Addr: Addr(addr), Err: os.ErrDeadlineExceeded}
	}
	p, s := n.pairLocked("d", true, false, fmt.Sprintf("proxy:%d", n.connSeq+1), addr)
	p.Owned = true
	n.mu.Unlock()
	n.rt.Logf("dial %s ok -> %s", addr, p.Name)
	srv.Accept(s)
	return p, nil
}

// Connect is an actor's connect to a listener of the code under test (driver context).
func (n *Net) Connect(addr, who string) (*End, error) {
	n.mu.Lock()
	l := n.listeners[addr]
	if l == nil || l.closed {
		n.mu.Unlock()
		return nil, &net.OpError{Op: "dial", Net: "tcp", Addr: Addr(addr), Err: os.NewSyscallError("connect", syscall.ECONNREFUSED)}
	}
	a, s := n.pairLocked("a", false, true, fmt.Sprintf("%s:%d", who, n.connSeq+1), addr)
	l.q = append(l.q, acceptItem{conn: s})
	l.wake()
	n.mu.Unlock()
	return a, nil
}

// ---- listener ----

type acceptItem struct {
	conn *End
	err  error
}

type Listener struct {
	n        *Net
	addr     string
	q        []acceptItem
	closed   bool
	wait     chan struct{}
	Accepted int
	ClosedAt time.Time
}

func (n *Net) listen(network, addr string) (net.Listener, error) {
	n.mu.Lock()
	defer n.mu.Unlock()
	if n.ListenFail[addr] > 0 {
		n.ListenFail[addr]--
		n.count("listen-busy")
		return nil, &net.OpError{Op: "listen", Net: "tcp", Addr: Addr(addr), Err: os.NewSyscallError("bind", syscall.EADDRINUSE)}
	}
	if l := n.listeners[addr]; l != nil && !l.closed {
		return nil, &net.OpError{Op: "listen", Net: "tcp", Addr: Addr(addr), Err: os.NewSyscallError("bind", syscall.EADDRINUSE)}
	}
	l := &Listener{n: n, addr: addr}
	n.listeners[addr] = l
	n.Listeners = append(n.Listeners, l)
	return l, nil
}

// Listening reports whether a listener of the code under test is open at addr.
func (n *Net) Listening(addr string) bool {
	n.mu.Lock()
	defer n.mu.Unlock()
	l := n.listeners[addr]
	return l != nil && !l.closed
}

// InjectAcceptError makes the next Accept at addr fail with a temporary error.
func (n *Net) InjectAcceptError(addr string) bool {
	n.mu.Lock()
	defer n.mu.Unlock()
	l := n.listeners[addr]
	if l == nil || l.closed {
		return false
	}
	l.q = append([]acceptItem{{err: &net.OpError{Op: "accept", Net: "tcp", Addr: Addr(addr), Err: tempErr{}}}}, l.q...)
	l.wake()
	n.count("accept-temp-error")
	return true
}

type tempErr struct{}

func (tempErr) Error() string   { return "accept4: too many open files" }
func (tempErr) Temporary() bool { return true }
func (tempErr) Timeout() bool   { return false }

func (l *Listener) wake() {
	if l.wait != nil {
		close(l.wait)
		l.wait = nil
	}
}

func (l *Listener) Accept() (net.Conn, error) {
	simhook.Yield("net.Accept")
	for {
		l.n.mu.Lock()
		if l.closed {
			l.n.mu.Unlock()
			return nil, &net.OpError{Op: "accept", Net: "tcp", Addr: Addr(l.addr), Err: net.ErrClosed}
		}
		if len(l.q) > 0 {
			it := l.q[0]
			l.q = l.q[1:]
			if it.err == nil {
				l.Accepted++
				it.conn.Owned = true
			}
			l.n.mu.Unlock()
			if it.err != nil {
				return nil, it.err
			}
			l.n.rt.Logf("accept %s", it.conn.Name)
			return it.conn, nil
		}
		if l.wait == nil {
			l.wait = make(chan struct{})
		}
		ch := l.wait
		l.n.mu.Unlock()
		<-ch
	}
}

func (l *Listener) Close() error {
	simhook.Yield("net.ListenerClose")
	l.n.mu.Lock()
	if l.closed {
		l.n.mu.Unlock()
		return &net.OpError{Op: "close", Net: "tcp", Addr: Addr(l.addr), Err: net.ErrClosed}
	}
	l.closed = true
	l.ClosedAt = time.Now()
	q := l.q
	l.q = nil
	l.wake()
	l.n.mu.Unlock()
	l.n.rt.Logf("listener %s closed", l.addr)
	// connections established but never accepted are reset
	for _, it := range q {
		if it.conn != nil {
			it.conn.Reset()
		}
	}
	return nil
}

func (l *Listener) Addr() net.Addr { return Addr(l.addr) }

// ---- data path ----

func (e *End) wakeR() {
	if e.rwait != nil {
		close(e.rwait)
		e.rwait = nil
	}
}
func (e *End) wakeW() {
	if e.wwait != nil {
		close(e.wwait)
		e.wwait = nil
	}
}

// pumpLocked makes sure a delivery event exists for the head of e's out queue.
func (e *End) pumpLocked() {
	if len(e.outq) == 0 || e.stalled || e.evLabel != "" {
		return
	}
	e.seq++
	e.evLabel = fmt.Sprintf("net:%s#%06d", e.Name, e.seq)
	label := e.evLabel
	e.n.rt.AddEvent(label, func() { e.deliver(label) })
}

func (e *End) deliver(label string) {
	n := e.n
	n.mu.Lock()
	if e.evLabel != label {
		n.mu.Unlock()
		return
	}
	e.evLabel = ""
	if len(e.outq) == 0 {
		n.mu.Unlock()
		return
	}
	p := e.peer
	seg := e.outq[0]
	var cbData, cbEOF bool
	if seg.fin {
		e.outq = e.outq[1:]
		if !p.closed && p.rerr == nil {
			p.reof = true
			if len(p.rbuf) == 0 {
				if g := time.Since(p.quietStartLocked()); g > p.MaxRecvGap {
					p.MaxRecvGap = g
				}
			}
			p.wakeR()
			cbEOF = true
		}
	} else {
		data := seg.data
		if len(data) > 1 && n.FragNum > 0 && n.rng.Intn(n.FragDen) < n.FragNum {
			k := 1 + n.rng.Intn(len(data)-1)
			if n.rng.Chance(1, 3) {
				k = 1
			}
			e.outq[0].data = data[k:]
			data = data[:k]
			n.count("frag")
		} else {
			e.outq = e.outq[1:]
		}
		e.outBytes -= len(data)
		switch {
		case p.rerr != nil:
			// dropped: connection already reset
		case p.closed:
			// data for a closed socket: the peer's kernel answers RST
			n.count("rst-on-closed")
			e.rerr = errReset
			e.outq = nil
			e.outBytes = 0
			e.wakeR()
			e.wakeW()
		case p.rclosed:
			// shutdown(SHUT_RD): silently discarded
		default:
			if len(p.rbuf) == 0 {
				if g := time.Since(p.quietStartLocked()); g > p.MaxRecvGap {
					p.MaxRecvGap = g
				}
			}
			p.rbuf = append(p.rbuf, data...)
			p.BytesIn += len(data)
			p.LastRecvAt = time.Now()
			p.wakeR()
			cbData = true
		}
		e.wakeW()
	}
	e.pumpLocked()
	n.mu.Unlock()
	if cbData && p.OnData != nil {
		p.OnData(p)
	}
	if cbEOF && p.OnEOF != nil {
		p.OnEOF(p)
	}
	if e.rerr != nil && e.OnReset != nil && !e.SUT {
		// actor sender learned about the reset
		cb := e.OnReset
		e.OnReset = nil
		cb(e)
	}
}

func (e *End) enqueueLocked(b []byte) {
	cp := append([]byte(nil), b...)
	e.outq = append(e.outq, segment{data: cp})
	e.outBytes += len(cp)
	e.BytesOut += len(cp)
	e.pumpLocked()
}

func (e *End) finLocked() {
	if e.wclosed {
		return
	}
	e.wclosed = true
	e.outq = append(e.outq, segment{fin: true})
	e.pumpLocked()
}

// ---- net.Conn for the code under test ----

func (e *End) Read(p []byte) (int, error) {
	simhook.Yield("net.Read")
	if len(p) == 0 {
		return 0, nil
	}
	n := e.n
	for {
		n.mu.Lock()
		switch {
		case e.closed:
			n.mu.Unlock()
			return 0, opErr("read", e, net.ErrClosed)
		case !e.rdl.IsZero() && !time.Now().Before(e.rdl):
			// a deadline that has passed fails the call before anything is read, also when data is waiting
			// (netpoll checks the deadline first)
			n.mu.Unlock()
			n.rt.Probe("net.read-deadline")
			return 0, opErr("read", e, os.ErrDeadlineExceeded)
		case len(e.rbuf) > 0 && !e.rclosed:
			k := copy(p, e.rbuf)
			e.rbuf = e.rbuf[k:]
			if len(e.rbuf) == 0 {
				e.rbuf = nil
				e.quietFrom = time.Now()
			}
			e.peer.wakeW()
			n.mu.Unlock()
			return k, nil
		case e.rerr != nil:
			n.mu.Unlock()
			return 0, opErr("read", e, errReset)
		case e.reof || e.rclosed:
			n.mu.Unlock()
			return 0, io.EOF
		}
		now := time.Now()
		if !e.rdl.IsZero() && !now.Before(e.rdl) {
			n.mu.Unlock()
			n.rt.Probe("net.read-deadline")
			return 0, opErr("read", e, os.ErrDeadlineExceeded)
		}
		if e.rwait == nil {
			e.rwait = make(chan struct{})
		}
		ch := e.rwait
		dl := e.rdl
		n.mu.Unlock()
		if dl.IsZero() {
			<-ch
		} else {
			t := simhook.NewTimer(dl.Sub(now))
			select {
			case <-ch:
				t.Stop()
			case <-t.C:
			}
		}
	}
}

func (e *End) Write(p []byte) (int, error) {
	simhook.Yield("net.Write")
	n := e.n
	for {
		n.mu.Lock()
		switch {
		case e.closed:
			n.mu.Unlock()
			return 0, opErr("write", e, net.ErrClosed)
		case e.wclosed:
			n.mu.Unlock()
			return 0, opErr("write", e, errPipe)
		case e.rerr != nil:
			n.mu.Unlock()
			return 0, opErr("write", e, os.NewSyscallError("write", syscall.ECONNRESET))
		}
		if !e.wdl.IsZero() && !time.Now().Before(e.wdl) {
			// as for reads: a write deadline that has passed fails the call before anything is written
			n.mu.Unlock()
			return 0, opErr("write", e, os.ErrDeadlineExceeded)
		}
		if n.BufCap > 0 && e.outBytes+len(e.peer.rbuf) >= n.BufCap && len(p) > 0 {
			now := time.Now()
			if !e.wdl.IsZero() && !now.Before(e.wdl) {
				n.mu.Unlock()
				return 0, opErr("write", e, os.ErrDeadlineExceeded)
			}
			n.count("backpressure")
			if e.wwait == nil {
				e.wwait = make(chan struct{})
			}
			ch := e.wwait
			dl := e.wdl
			n.mu.Unlock()
			if dl.IsZero() {
				<-ch
			} else {
				t := simhook.NewTimer(dl.Sub(now))
				select {
				case <-ch:
					t.Stop()
				case <-t.C:
				}
			}
			continue
		}
		e.enqueueLocked(p)
		n.mu.Unlock()
		return len(p), nil
	}
}

func (e *End) closeLocked() {
	e.closed = true
	e.ClosedAt = time.Now()
	e.wakeR()
	e.wakeW()
	if e.lingerZero && e.rerr == nil && !e.peer.closed {
		// SO_LINGER with a zero timeout: close sends RST at once, what was written and not yet delivered is discarded
		e.n.count("rst-on-linger-zero")
		e.resetPeerLocked()
		return
	}
	if len(e.rbuf) > 0 && e.rerr == nil && !e.peer.closed {
		// close with unread data: the kernel sends RST, the peer loses what is in flight to it
		e.n.count("rst-on-close-unread")
		e.resetPeerLocked()
		return
	}
	if e.rerr == nil {
		e.finLocked()
	}
}

func (e *End) resetPeerLocked() {
	p := e.peer
	e.dropOutLocked()
	p.dropOutLocked()
	if p.rerr == nil {
		p.rerr = errReset
	}
	p.rbuf = nil
	p.wakeR()
	p.wakeW()
}

func (e *End) dropOutLocked() {
	e.outq = nil
	e.outBytes = 0
	if e.evLabel != "" {
		e.n.rt.RemoveEvent(e.evLabel)
		e.evLabel = ""
	}
}

func (e *End) Close() error {
	simhook.Yield("net.Close")
	n := e.n
	n.mu.Lock()
	if e.closed {
		n.mu.Unlock()
		return opErr("close", e, net.ErrClosed)
	}
	wasReset := e.peer.rerr
	e.closeLocked()
	p := e.peer
	notify := p.rerr != nil && wasReset == nil && !p.SUT && p.OnReset != nil
	n.mu.Unlock()
	n.rt.Logf("close %s", e.Name)
	if notify {
		cb := p.OnReset
		p.OnReset = nil
		cb(p)
	}
	return nil
}

// Socket options a *net.TCPConn offers (see simhook.TCPConn).  Only a zero linger time changes what the peers can
// observe; the others are accepted and ignored.
func (e *End) SetLinger(sec int) error {
	e.n.mu.Lock()
	e.lingerZero = sec == 0
	e.n.mu.Unlock()
	return nil
}
func (e *End) SetNoDelay(bool) error                  { return nil }
func (e *End) SetKeepAlive(bool) error                { return nil }
func (e *End) SetKeepAlivePeriod(time.Duration) error { return nil }
func (e *End) SetReadBuffer(int) error                { return nil }
func (e *End) SetWriteBuffer(int) error               { return nil }

func (e *End) CloseWrite() error {
	simhook.Yield("net.CloseWrite")
	n := e.n
	n.mu.Lock()
	defer n.mu.Unlock()
	if e.closed {
		return opErr("close", e, net.ErrClosed)
	}
	if e.rerr != nil {
		return opErr("shutdown", e, os.NewSyscallError("shutdown", syscall.ENOTCONN))
	}
	e.finLocked()
	n.rt.Logf("closewrite %s", e.Name)
	return nil
}

func (e *End) CloseRead() error {
	simhook.Yield("net.CloseRead")
	n := e.n
	n.mu.Lock()
	defer n.mu.Unlock()
	if e.closed {
		return opErr("close", e, net.ErrClosed)
	}
	if e.rerr != nil {
		return opErr("shutdown", e, os.NewSyscallError("shutdown", syscall.ENOTCONN))
	}
	e.rclosed = true
	e.rbuf = nil
	e.wakeR()
	e.peer.wakeW()
	return nil
}

func (e *End) LocalAddr() net.Addr  { return e.local }
func (e *End) RemoteAddr() net.Addr { return e.remote }

func (e *End) SetDeadline(t time.Time) error {
	e.n.mu.Lock()
	e.rdl, e.wdl = t, t
	e.n.mu.Unlock()
	return nil
}
func (e *End) SetReadDeadline(t time.Time) error {
	e.n.mu.Lock()
	e.rdl = t
	e.n.mu.Unlock()
	return nil
}
func (e *End) SetWriteDeadline(t time.Time) error {
	e.n.mu.Lock()
	e.wdl = t
	e.n.mu.Unlock()
	return nil
}

// ---- actor side (driver context) ----

// Send queues bytes from an actor-owned end to its peer.
func (e *End) Send(b []byte) bool {
	n := e.n
	n.mu.Lock()
	defer n.mu.Unlock()
	if e.closed || e.wclosed || e.rerr != nil || len(b) == 0 {
		return false
	}
	e.enqueueLocked(b)
	return true
}

// Take removes and returns everything received so far.
func (e *End) Take() []byte {
	n := e.n
	n.mu.Lock()
	b := e.rbuf
	e.rbuf = nil
	if len(b) > 0 {
		e.peer.wakeW()
	}
	n.mu.Unlock()
	return b
}

func (e *End) Buffered() int {
	e.n.mu.Lock()
	defer e.n.mu.Unlock()
	return len(e.rbuf)
}

// ActorClose closes an actor-owned end (FIN after in-flight data, RST if unread data).
func (e *End) ActorClose() {
	n := e.n
	n.mu.Lock()
	if !e.closed {
		e.closeLocked()
	}
	n.mu.Unlock()
}

func (e *End) ActorCloseWrite() {
	n := e.n
	n.mu.Lock()
	if !e.closed && e.rerr == nil {
		e.finLocked()
	}
	n.mu.Unlock()
}

// Reset aborts the connection: both ends fail, in-flight data is discarded.
func (e *End) Reset() {
	n := e.n
	n.mu.Lock()
	a, b := e, e.peer
	var cbs []*End
	for _, x := range []*End{a, b} {
		x.dropOutLocked()
		if x.rerr == nil && !x.closed {
			x.rerr = errReset
			if !x.SUT && x.OnReset != nil {
				cbs = append(cbs, x)
			}
		}
		x.rbuf = nil
		x.wakeR()
		x.wakeW()
	}
	n.count("rst")
	n.mu.Unlock()
	n.rt.Logf("reset %s", e.Name)
	for _, x := range cbs {
		cb := x.OnReset
		x.OnReset = nil
		cb(x)
	}
}

// Stall stops (true) or resumes (false) deliveries from e to its peer.
func (e *End) Stall(on bool) {
	n := e.n
	n.mu.Lock()
	e.stalled = on
	if on {
		if e.evLabel != "" {
			n.rt.RemoveEvent(e.evLabel)
			e.evLabel = ""
		}
		n.count("stall")
	} else {
		e.pumpLocked()
	}
	n.mu.Unlock()
}

func (e *End) Peer() *End { return e.peer }

// State is a snapshot for oracles.
type State struct {
	Closed, WClosed, RClosed, Reset, EOF bool
	InFlight, Unread                     int
}

func (e *End) State() State {
	e.n.mu.Lock()
	defer e.n.mu.Unlock()
	return State{Closed: e.closed, WClosed: e.wclosed, RClosed: e.rclosed, Reset: e.rerr != nil, EOF: e.reof, InFlight: e.outBytes, Unread: len(e.rbuf)}
}

// OpenSUTEnds lists ends owned by the code under test that are neither closed nor reset.
func (n *Net) OpenSUTEnds() []*End {
	n.mu.Lock()
	defer n.mu.Unlock()
	var out []*End
	for _, e := range n.Ends {
		if e.SUT && e.Owned && !e.closed {
			out = append(out, e)
		}
	}
	return out
}

func (n *Net) String() string { return fmt.Sprintf("simnet(%d conns)", n.connSeq) }

// Package harness is the worker side of a check: it generates scenarios from a seed, runs them
// under the simulator, minimises violations and reports results as JSON for the coordinator.
package harness

import (
	"encoding/json"
	"fmt"
	"os"
	"runtime"
	"sort"
	"strings"
	"testing"
	"time"

	"verif.local/sim/simhook"
	"verif.local/sim/simrt"
)

// Meta is the part of every scenario that decides the schedule.
type Meta struct {
	Seed       uint64   `json:"seed"`     // scenario generation seed (informational once generated)
	Sched      uint64   `json:"sched"`    // schedule seed
	Strategy   string   `json:"strategy"` // uniform | pct | sticky | starve
	SlackMs    int      `json:"timer_slack_ms,omitempty"`
	Class      string   `json:"class,omitempty"`       // scenario class within the profile
	Dense      bool     `json:"dense,omitempty"`       // preemption between plain statements everywhere in the code under test
	DenseFuncs []string `json:"dense_funcs,omitempty"` // functions always included when Dense
	StarveRole string   `json:"starve_role,omitempty"` // strategy starve: starve the tasks of this role
	Full       bool     `json:"-"`                     // keep the full choice trace (set when a violation is re-run for its report)
}

func (m *Meta) GetMeta() *Meta { return m }

func (m *Meta) Options() simrt.Options {
	return simrt.Options{Seed: m.Sched, Strategy: m.Strategy, TimerSlack: time.Duration(m.SlackMs) * time.Millisecond, FullTrace: m.Full, Dense: m.Dense, DenseFuncs: m.DenseFuncs, StarveRole: m.StarveRole}
}

// GenMeta draws strategy and knobs (swarm style).
func GenMeta(r *simhook.Rand, seed uint64) Meta {
	m := Meta{Seed: seed, Sched: r.Uint64()}
	switch x := r.Intn(100); {
	case x < 40:
		m.Strategy = "uniform"
	case x < 65:
		m.Strategy = "pct"
	case x < 90:
		m.Strategy = "sticky"
	default:
		m.Strategy = "starve"
	}
	switch x := r.Intn(10); {
	case x < 7:
	case x == 7:
		m.SlackMs = 1
	case x == 8:
		m.SlackMs = 1000
	default:
		m.SlackMs = 30000
	}
	m.Dense = r.Chance(1, 16)
	return m
}

type Scenario interface {
	GetMeta() *Meta
}

// Outcome of one run.
type Outcome struct {
	Res          simrt.Result
	Nontrivial   bool
	Faults       map[string]int // fault kinds that actually fired
	Inconclusive bool
	Note         string
}

type Profile interface {
	ID() string
	// Gen draws the idx-th scenario of a tier from r.
	Gen(r *simhook.Rand, tier string, idx int) Scenario
	// Empty returns a zero scenario to unmarshal a replay file into.
	Empty() Scenario
	Run(t *testing.T, sc Scenario) Outcome
	// Shrink proposes strictly simpler scenarios.
	Shrink(sc Scenario) []Scenario
	// NontrivialRule describes what makes a run count as non-trivial.
	NontrivialRule() string
	// Components lists what ran as real code and what was a stub.
	Components() (real []string, stub []string)
}

// Enumerator is implemented by profiles that support systematic fault-point enumeration.
type Enumerator interface {
	// Expand turns a fault-free base scenario plus its run result into one scenario per (step, fault kind).
	Expand(base Scenario, baseOut Outcome, r *simhook.Rand, tier string) []Scenario
	GenBase(r *simhook.Rand, tier string, idx int) Scenario
}

var registry = map[string]Profile{}

func Register(p Profile) { registry[p.ID()] = p }

func Get(id string) Profile { return registry[id] }

type Job struct {
	Property string  `json:"property"`
	Tier     string  `json:"tier"`
	Mode     string  `json:"mode"` // explore | replay | selftest
	Seed     uint64  `json:"seed"`
	Worker   int     `json:"worker"`
	Workers  int     `json:"workers"`
	From     int     `json:"from"`
	To       int     `json:"to"` // run indices [From, To)
	BudgetS  float64 `json:"budget_s"`
	Out      string  `json:"out"`
	Journal  string  `json:"journal"`
	Replay   string  `json:"replay,omitempty"`
	MaxViol  int     `json:"max_violations"`
	ShrinkS  float64 `json:"shrink_s"`
	Recheck  int     `json:"recheck_every"` // re-run every n-th scenario to compare hashes (0: 50)
}

type ViolationRecord struct {
	Signature   string          `json:"signature"`
	Clause      string          `json:"clause"`
	Detail      string          `json:"detail"`
	Sites       []string        `json:"sites"`
	Scenario    json.RawMessage `json:"scenario"`
	Hash        string          `json:"hash"`
	Trace       []string        `json:"trace"`
	Minimized   bool            `json:"minimized"`
	ShrinkTried int             `json:"shrink_tried"`
	PanicStacks []string        `json:"panic_stacks,omitempty"`
	RunIndex    int             `json:"run_index"`
	Original    json.RawMessage `json:"original_scenario,omitempty"`
}

type WorkerResult struct {
	Property      string            `json:"property"`
	Runs          int               `json:"runs"`
	Nontrivial    int               `json:"nontrivial"`
	Distinct      []string          `json:"distinct"` // hashes of non-trivial (scenario, execution) pairs
	Steps         int64             `json:"steps"`
	SimSeconds    float64           `json:"sim_seconds"`
	Faults        map[string]int    `json:"faults"`
	Probes        map[string]int    `json:"probes"`
	Switches      []string          `json:"switches"`
	Violations    []ViolationRecord `json:"violations"`
	Samples       []json.RawMessage `json:"samples"`
	Inconclusive  int               `json:"inconclusive"`
	StepCap       int               `json:"step_cap"`
	Rechecked     int               `json:"rechecked"`
	HashMismatch  int               `json:"hash_mismatch"`
	MismatchNotes []string          `json:"mismatch_notes,omitempty"`
	Wall          float64           `json:"wall_s"`
	Strategies    map[string]int    `json:"strategies"`
	Classes       map[string]int    `json:"classes"`
	Real          []string          `json:"real"`
	Stub          []string          `json:"stub"`
	Rule          string            `json:"rule"`
	BudgetHit     bool              `json:"budget_hit"`
	Replay        *ReplayResult     `json:"replay,omitempty"`
	RunHashes     []string          `json:"run_hashes,omitempty"` // mode "hashes": one line per run
}

type ReplayResult struct {
	Signature string   `json:"signature"`
	Hash      string   `json:"hash"`
	Detail    string   `json:"detail"`
	Trace     []string `json:"trace"`
	Violated  bool     `json:"violated"`
}

func Signature(v *simrt.Violation) string {
	if v == nil {
		return ""
	}
	s := append([]string(nil), v.Sites...)
	sort.Strings(s)
	return v.Clause + "|" + strings.Join(s, ",")
}

func scenarioSeed(job Job, idx int) uint64 {
	return simhook.DeriveSeed(job.Seed, fmt.Sprintf("%s/%s/%d", job.Property, job.Tier, idx))
}

func hashJSON(b []byte) uint64 { return simhook.HashString(string(b)) }

// RunJob executes a worker job.
func RunJob(t *testing.T, job Job) WorkerResult {
	p := Get(job.Property)
	if p == nil {
		t.Fatalf("unknown property %q", job.Property)
	}
	res := WorkerResult{Property: job.Property, Faults: map[string]int{}, Probes: map[string]int{}, Strategies: map[string]int{}, Classes: map[string]int{}}
	res.Real, res.Stub = p.Components()
	res.Rule = p.NontrivialRule()
	start := time.Now()
	switches := map[uint64]struct{}{}
	distinct := map[uint64]struct{}{}
	if job.Recheck == 0 {
		job.Recheck = 50
	}
	if job.MaxViol == 0 {
		job.MaxViol = 3
	}
	sigSeen := map[string]int{}

	runOne := func(idx int, sc Scenario) {
		raw, _ := json.Marshal(sc)
		if job.Journal != "" {
			os.WriteFile(job.Journal, raw, 0o644)
		}
		if job.Mode == "hunt" {
			sc.GetMeta().Full = true
		}
		out := p.Run(t, sc)
		res.Runs++
		if res.Runs%200 == 0 {
			runtime.GC()
			if os.Getenv("SIM_MEMLOG") != "" {
				var ms runtime.MemStats
				runtime.ReadMemStats(&ms)
				fmt.Fprintf(os.Stderr, "mem: runs=%d heapInuse=%dMB sys=%dMB goroutines=%d\n", res.Runs, ms.HeapInuse>>20, ms.Sys>>20, runtime.NumGoroutine())
			}
		}
		if job.Mode == "hunt" {
			out2 := p.Run(t, sc)
			if out2.Res.Hash != out.Res.Hash {
				res.HashMismatch++
				a, b := out.Res.Trace, out2.Res.Trace
				i := 0
				for i < len(a) && i < len(b) && a[i] == b[i] {
					i++
				}
				lo := i - 25
				if lo < 0 {
					lo = 0
				}
				hiA, hiB := i+6, i+6
				if hiA > len(a) {
					hiA = len(a)
				}
				if hiB > len(b) {
					hiB = len(b)
				}
				os.WriteFile(fmt.Sprintf("/tmp/hunt-mismatch-%s-%d.json", job.Property, idx), []byte(fmt.Sprintf("{\"scenario\": %s, \"signature\": \"x\", \"hash\": \"\"}", raw)), 0o644)
				res.MismatchNotes = append(res.MismatchNotes, fmt.Sprintf("run %d diverges at line %d\nCOMMON+A:\n%s\nB:\n%s\nscenario=%s", idx, i,
					strings.Join(a[lo:hiA], "\n"), strings.Join(b[i:hiB], "\n"), truncate(string(raw), 1500)))
			}
		}
		if job.Mode == "hashes" {
			res.RunHashes = append(res.RunHashes, fmt.Sprintf("%d/%d %016x steps=%d sig=%s", idx, res.Runs, out.Res.Hash, out.Res.Steps, Signature(out.Res.Violation)))
		}
		m := sc.GetMeta()
		res.Strategies[m.Strategy]++
		if m.Class != "" {
			res.Classes[m.Class]++
		}
		res.Steps += int64(out.Res.Steps)
		res.SimSeconds += out.Res.SimTime.Seconds()
		for k, v := range out.Faults {
			res.Faults[k] += v
		}
		for k, v := range out.Res.Probes {
			res.Probes[k] += v
		}
		if len(switches) < 200000 {
			for k := range out.Res.Switches {
				switches[k] = struct{}{}
			}
		}
		if m.Dense {
			res.Probes["dense-runs"]++
		}
		if out.Res.StepCapHit && m.Dense {
			// a dense run multiplies the steps of whatever loops it instruments; running into the cap there only
			// ends that run's extra exploration, it says nothing about the ordinary runs
			res.Probes["dense-runs-step-capped"]++
		} else if out.Res.StepCapHit {
			res.StepCap++
		}
		if out.Inconclusive {
			res.Inconclusive++
		}
		if out.Nontrivial {
			res.Nontrivial++
			if len(distinct) < 400000 {
				distinct[simhook.Mix(hashJSON(raw)^out.Res.Hash)] = struct{}{}
			}
		}
		if len(res.Samples) < 3 && out.Nontrivial {
			res.Samples = append(res.Samples, sample(raw, out))
		}
		if res.Runs%job.Recheck == 1 {
			out2 := p.Run(t, sc)
			res.Rechecked++
			if out2.Res.Hash != out.Res.Hash || Signature(out2.Res.Violation) != Signature(out.Res.Violation) {
				res.HashMismatch++
				if len(res.MismatchNotes) < 5 {
					res.MismatchNotes = append(res.MismatchNotes, fmt.Sprintf("run %d: %016x/%s vs %016x/%s scenario=%s", idx, out.Res.Hash, Signature(out.Res.Violation), out2.Res.Hash, Signature(out2.Res.Violation), truncate(string(raw), 2000)))
				}
			}
		}
		if v := out.Res.Violation; v != nil {
			sig := Signature(v)
			sigSeen[sig]++
			if sigSeen[sig] <= job.MaxViol {
				rec := ViolationRecord{Signature: sig, Clause: v.Clause, Detail: v.Detail, Sites: v.Sites, Scenario: raw,
					Hash: fmt.Sprintf("%016x", out.Res.Hash), Trace: out.Res.Trace, PanicStacks: out.Res.PanicStacks, RunIndex: idx}
				if job.ShrinkS > 0 && sigSeen[sig] == 1 {
					rec = minimise(t, p, sc, rec, time.Duration(job.ShrinkS*float64(time.Second)))
				}
				rec = withFullTrace(t, p, rec)
				res.Violations = append(res.Violations, rec)
			} else {
				// count only
				for i := range res.Violations {
					if res.Violations[i].Signature == sig {
						break
					}
				}
			}
		}
	}

	budget := time.Duration(job.BudgetS * float64(time.Second))
	enum, isEnum := p.(Enumerator)
	for idx := job.From; idx < job.To; idx++ {
		if budget > 0 && time.Since(start) > budget {
			res.BudgetHit = true
			break
		}
		if idx%job.Workers != job.Worker {
			continue
		}
		r := simhook.NewRand(scenarioSeed(job, idx))
		if isEnum && idx%2 == 0 {
			base := enum.GenBase(r, job.Tier, idx)
			raw, _ := json.Marshal(base)
			if job.Journal != "" {
				os.WriteFile(job.Journal, raw, 0o644)
			}
			bout := p.Run(t, base)
			if bout.Res.Violation != nil {
				// a fault-free base run that fails is a finding by itself
				runOne(idx, base)
				continue
			}
			for _, sc := range enum.Expand(base, bout, r, job.Tier) {
				if budget > 0 && time.Since(start) > budget {
					res.BudgetHit = true
					break
				}
				runOne(idx, sc)
			}
			continue
		}
		runOne(idx, p.Gen(r, job.Tier, idx))
	}
	for k := range switches {
		res.Switches = append(res.Switches, fmt.Sprintf("%x", k))
	}
	for k := range distinct {
		res.Distinct = append(res.Distinct, fmt.Sprintf("%x", k))
	}
	for sig, n := range sigSeen {
		for i := range res.Violations {
			if res.Violations[i].Signature == sig {
				res.Violations[i].Detail += fmt.Sprintf(" [seen %d times by this worker]", n)
				break
			}
		}
	}
	res.Wall = time.Since(start).Seconds()
	var ms runtime.MemStats
	runtime.ReadMemStats(&ms)
	res.Probes["worker.sys_mb"] = int(ms.Sys >> 20)
	res.Probes["worker.goroutines"] = runtime.NumGoroutine()
	return res
}

func truncate(s string, n int) string {
	if len(s) > n {
		return s[:n] + "..."
	}
	return s
}

func sample(raw []byte, out Outcome) json.RawMessage {
	tr := out.Res.Trace
	if len(tr) > 12 {
		tr = tr[:12]
	}
	b, _ := json.Marshal(map[string]interface{}{
		"scenario": json.RawMessage(truncate2(raw, 3000)), "steps": out.Res.Steps, "sim_time": out.Res.SimTime.String(),
		"faults_fired": out.Faults, "trace_tail": tr, "hash": fmt.Sprintf("%016x", out.Res.Hash),
	})
	return b
}

func truncate2(raw []byte, n int) []byte {
	if len(raw) <= n {
		return raw
	}
	b, _ := json.Marshal(string(raw[:n]) + "...(truncated)")
	return b
}

// minimise: greedy delta debugging over the profile's Shrink candidates.  A candidate counts only
// when it yields the same signature; each is tried with its own schedule seed and a few fresh ones.
func minimise(t *testing.T, p Profile, sc Scenario, rec ViolationRecord, budget time.Duration) ViolationRecord {
	start := time.Now()
	cur := sc
	orig := rec.Scenario
	tried := 0
	improved := true
	for improved && time.Since(start) < budget {
		improved = false
		for _, cand := range p.Shrink(cur) {
			if time.Since(start) > budget {
				break
			}
			base := cand.GetMeta().Sched
			for k := uint64(0); k < 6; k++ {
				if k > 0 {
					cand.GetMeta().Sched = simhook.Mix(base + k)
				}
				tried++
				out := p.Run(t, cand)
				if out.Res.Violation != nil && Signature(out.Res.Violation) == rec.Signature {
					raw, _ := json.Marshal(cand)
					rec.Scenario = raw
					rec.Detail = out.Res.Violation.Detail
					rec.Hash = fmt.Sprintf("%016x", out.Res.Hash)
					rec.Trace = out.Res.Trace
					rec.PanicStacks = out.Res.PanicStacks
					cur = cand
					improved = true
					break
				}
			}
			if improved {
				break
			}
		}
	}
	rec.Minimized = true
	rec.ShrinkTried = tried
	if string(orig) != string(rec.Scenario) {
		rec.Original = orig
	}
	return rec
}

// Replay runs the scenario of a replay file once.
func Replay(t *testing.T, job Job) WorkerResult {
	p := Get(job.Property)
	res := WorkerResult{Property: job.Property}
	b, err := os.ReadFile(job.Replay)
	if err != nil {
		t.Fatal(err)
	}
	var f struct {
		Scenario json.RawMessage `json:"scenario"`
	}
	if err := json.Unmarshal(b, &f); err != nil {
		t.Fatal(err)
	}
	sc := p.Empty()
	if err := json.Unmarshal(f.Scenario, sc); err != nil {
		t.Fatal(err)
	}
	if dump := os.Getenv("SIM_TRACE_OUT"); dump != "" {
		sc.GetMeta().Full = true // debugging aid: the whole choice trace and step log go to a file
		defer func() {}()
	}
	out := p.Run(t, sc)
	if dump := os.Getenv("SIM_TRACE_OUT"); dump != "" {
		os.WriteFile(dump, []byte(strings.Join(out.Res.Trace, "\n")+"\n"), 0o644)
	}
	rr := &ReplayResult{Hash: fmt.Sprintf("%016x", out.Res.Hash), Trace: out.Res.Trace}
	if v := out.Res.Violation; v != nil {
		rr.Violated = true
		rr.Signature = Signature(v)
		rr.Detail = v.Detail
	}
	res.Replay = rr
	res.Runs = 1
	return res
}

// withFullTrace re-executes the (minimised) scenario keeping the whole choice trace, drops the
// periodic hot-key collector noise and stores what is left (bounded) in the record.  The re-run
// must reproduce signature and hash: this is the replay check done before anything is reported.
func withFullTrace(t *testing.T, p Profile, rec ViolationRecord) ViolationRecord {
	sc := p.Empty()
	if err := json.Unmarshal(rec.Scenario, sc); err != nil {
		return rec
	}
	sc.GetMeta().Full = true
	out := p.Run(t, sc)
	if out.Res.Violation == nil || Signature(out.Res.Violation) != rec.Signature || fmt.Sprintf("%016x", out.Res.Hash) != rec.Hash {
		rec.Detail += " [WARNING: re-execution did not reproduce the same signature/hash]"
		return rec
	}
	rec.Trace = CompactTrace(out.Res.Trace, 700, p.ID() != "C19")
	return rec
}

func CompactTrace(tr []string, max int, dropHotkey bool) []string {
	var out []string
	skipped := 0
	for _, l := range tr {
		if dropHotkey && (strings.Contains(l, "(*Collector).") || strings.Contains(l, "(*Counter).Latch") || strings.HasSuffix(l, "clock +10s") ||
			(strings.Contains(l, " TM tm:") && strings.HasSuffix(l, " start"))) {
			skipped++
			continue
		}
		out = append(out, l)
	}
	if len(out) > max {
		out = append([]string{fmt.Sprintf("... %d earlier lines omitted ...", len(out)-max)}, out[len(out)-max:]...)
	}
	if skipped > 0 {
		out = append(out, fmt.Sprintf("(%d hot-key collector / ticker lines omitted)", skipped))
	}
	return out
}

package harness_test

import (
	"encoding/json"
	"fmt"
	"os"
	"runtime/debug"
	"runtime/pprof"
	"testing"
	"time"

	"verif.local/sim/harness"
	_ "verif.local/sim/profiles"
	"verif.local/sim/simrt"
)

// TestWorker is the entry point of a worker process: the job is read from $SIM_JOB.
func TestWorker(t *testing.T) {
	path := os.Getenv("SIM_JOB")
	if path == "" {
		t.Skip("SIM_JOB not set")
	}
	b, err := os.ReadFile(path)
	if err != nil {
		t.Fatal(err)
	}
	var job harness.Job
	if err := json.Unmarshal(b, &job); err != nil {
		t.Fatal(err)
	}
	debug.SetMaxStack(48 << 20)
	// watchdog: a simulation step that does not reach quiescence within 90 s of real time is an
	// infrastructure failure (exit 3), never a verdict.
	go func() {
		last := simrt.Progress.Load()
		stuck := 0
		for {
			time.Sleep(5 * time.Second)
			cur := simrt.Progress.Load()
			if cur == last {
				stuck++
			} else {
				stuck = 0
			}
			last = cur
			if stuck >= 9 {
				fmt.Fprintln(os.Stderr, "WATCHDOG: no simulation progress for 45s; goroutine dump follows")
				pprof.Lookup("goroutine").WriteTo(os.Stderr, 2)
				os.Exit(3)
			}
		}
	}()
	var res harness.WorkerResult
	if job.Mode == "replay" {
		res = harness.Replay(t, job)
	} else {
		res = harness.RunJob(t, job)
	}
	out, _ := json.Marshal(res)
	if err := os.WriteFile(job.Out, out, 0o644); err != nil {
		t.Fatal(err)
	}
}

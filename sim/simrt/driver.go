// Package simrt is the driver of the deterministic simulator: it runs one scenario inside a
// testing/synctest bubble, releasing exactly one parked task or executing exactly one
// simulator event (network delivery, actor action, timer, fault) per step, every choice drawn
// from the schedule PRNG.
package simrt

import (
	"fmt"
	"sort"
	"strings"
	"sync/atomic"
	"testing"
	"testing/synctest"
	"time"

	"verif.local/sim/simhook"
)

type Violation struct {
	Clause string   `json:"clause"` // oracle clause that failed (stable identifier)
	Detail string   `json:"detail"`
	Sites  []string `json:"sites,omitempty"` // where the involved tasks are blocked / panic function
}

func (v *Violation) String() string {
	return fmt.Sprintf("%s: %s %v", v.Clause, v.Detail, v.Sites)
}

// World is one scenario instance: the code under test plus actors and oracles.
type World interface {
	// Setup runs inside the bubble before the first step.
	Setup(rt *simhook.Runtime)
	// Check is evaluated at every quiescent point.
	Check() *Violation
	// Done reports that the scenario is complete and all obligations are discharged.
	Done() bool
	// Deadline: once the fake clock passes it the run ends with Final (zero: no deadline yet).
	Deadline() time.Time
	// Final evaluates end-of-run oracles (liveness in the final state, conservation, ...).
	Final() *Violation
	// Draining reports that no further fault will be injected: scheduling becomes fair.
	Draining() bool
}

type Options struct {
	Seed       uint64
	Strategy   string // uniform | pct | sticky | starve
	PCTDepth   int
	MaxSteps   int
	TimerSlack time.Duration
	KeepTrace  int // number of trailing trace lines to keep (0: 60)
	FullTrace  bool
	Dense      bool     // statement-granularity scheduling points in all instrumented code for this run
	DenseFuncs []string // functions always included in a dense run
	StarveRole string   // strategy "starve": the tasks whose role contains this text are the starved ones (default: one task by number)
}

type Result struct {
	Violation   *Violation
	Steps       int
	Hash        uint64
	Trace       []string
	SimTime     time.Duration
	Probes      map[string]int
	Switches    map[uint64]struct{}
	StepCapHit  bool
	Alive       []string
	PanicStacks []string
}

// Progress is bumped every step; the worker's watchdog reads it.
var Progress atomic.Int64

type cand struct {
	label string
	task  *simhook.Task
	ev    *simhook.Event
	timer *simhook.TimerInfo
}

type driver struct {
	rt       *simhook.Runtime
	opt      Options
	rng      *simhook.Rand
	w        World
	hash     uint64
	trace    []string
	prio     map[string]uint64
	changes  map[int]bool
	lastTask int
	victim   int
	switches map[uint64]struct{}
	prevKey  string

	finalDrain bool
	drainSteps int
}

func (d *driver) mix(s string) {
	h := d.hash
	for i := 0; i < len(s); i++ {
		h ^= uint64(s[i])
		h *= 1099511628211
	}
	h ^= 0xff
	h *= 1099511628211
	d.hash = h
}

func (d *driver) tr(s string) {
	d.mix(s)
	d.trace = append(d.trace, s)
	keep := d.opt.KeepTrace
	if keep == 0 {
		keep = 60
	}
	if !d.opt.FullTrace && len(d.trace) > 4*keep {
		d.trace = append([]string(nil), d.trace[len(d.trace)-keep:]...)
	}
}

// Run executes one scenario. It must be called from a test (synctest needs *testing.T).
func Run(t *testing.T, w World, opt Options) (res Result) {
	if opt.MaxSteps == 0 {
		opt.MaxSteps = 200000
		if opt.Dense {
			opt.MaxSteps = 600000
		}
	}
	if opt.Dense && opt.TimerSlack > time.Second {
		// a dense run spends thousands of steps in loops that are a single step otherwise: keep the clock close to them
		// (a task that stays runnable from scheduling point to scheduling point counts as one piece of waiting work, so
		// the clock never gets more than the slack ahead of the start of such a stretch)
		opt.TimerSlack = time.Second
	}
	simhook.DenseAll = opt.Dense
	simhook.DenseFuncs = map[string]bool{}
	for _, f := range opt.DenseFuncs {
		simhook.DenseFuncs[f] = true
	}
	defer func() { simhook.DenseAll, simhook.DenseFuncs = false, nil }()
	defer func() {
		if r := recover(); r != nil {
			s := fmt.Sprint(r)
			if !strings.Contains(s, "deadlock: main bubble goroutine has exited") {
				panic(r)
			}
		}
	}()
	synctest.Test(t, func(t *testing.T) {
		rt := simhook.New(opt.Seed)
		simhook.Install(rt)
		defer func() {
			simhook.SelectState = 0
			simhook.Install(nil)
		}()
		d := &driver{rt: rt, opt: opt, rng: simhook.NewRand(simhook.DeriveSeed(opt.Seed, "schedule")), w: w,
			hash: 14695981039346656037, prio: map[string]uint64{}, changes: map[int]bool{}, switches: map[uint64]struct{}{}}
		if opt.Strategy == "pct" {
			n := opt.PCTDepth
			if n <= 0 {
				n = 1 + d.rng.Intn(4)
			}
			for i := 0; i < n; i++ {
				d.changes[d.rng.Intn(600)] = true
			}
		}
		d.victim = -1
		if opt.Strategy == "starve" {
			d.victim = 2 + d.rng.Intn(12)
		}
		start := time.Now()
		w.Setup(rt)
		res.Violation = d.loop(&res)
		res.Hash = d.hash
		res.SimTime = time.Since(start)
		res.Trace = d.trace
		if !opt.FullTrace {
			keep := opt.KeepTrace
			if keep == 0 {
				keep = 60
			}
			if len(res.Trace) > keep {
				res.Trace = res.Trace[len(res.Trace)-keep:]
			}
		}
		res.Probes = rt.Probes
		res.Switches = d.switches
		res.Alive = rt.Alive(true)
		for _, tk := range rt.Tasks() {
			if tk.Panic != nil {
				res.PanicStacks = append(res.PanicStacks, fmt.Sprintf("T%d %s: %v\n%s", tk.ID, tk.Role, tk.Panic, tk.Stack))
			}
		}
		if fz, ok := w.(interface{ Freeze() }); ok {
			fz.Freeze()
		}
		d.teardown()
	})
	return
}

func (d *driver) loop(res *Result) *Violation {
	rt := d.rt
	for step := 0; ; step++ {
		synctest.Wait()
		Progress.Add(1)
		rt.Step = int64(step)
		res.Steps = step
		for _, l := range rt.TakeStepLog() {
			d.tr("  | " + l)
		}
		if p := rt.TakePanics(); len(p) > 0 {
			return &Violation{Clause: "no-panic", Detail: p[0], Sites: panicSites(rt)}
		}
		if v := d.w.Check(); v != nil {
			return v
		}
		// Check may have injected a fault that started a harness task: let it reach its first yield
		synctest.Wait()
		if d.w.Done() {
			return d.w.Final()
		}
		// Done may start the end phase of a scenario (a harness task calling Stop): let it reach its first
		// scheduling point too, or it would be a candidate in one execution and not yet in another
		synctest.Wait()
		now := time.Now()
		if dl := d.w.Deadline(); !d.finalDrain && !dl.IsZero() && now.After(dl) {
			// the horizon has passed: before judging, let everything that is runnable run (fair
			// schedule, no further clock advance), so that the verdict is about a final state
			d.finalDrain = true
			d.tr(fmt.Sprintf("%d final-drain", step))
		}
		if step >= d.opt.MaxSteps {
			res.StepCapHit = true
			return nil
		}
		cands := d.candidates(now)
		if d.finalDrain {
			if len(cands) == 0 {
				return d.w.Final()
			}
			d.drainSteps++
			if d.drainSteps > 50000 {
				res.StepCapHit = true
				return nil
			}
		}
		if len(cands) == 0 {
			next, ok := d.nextTime(now)
			if !ok {
				// nothing can ever happen again: final state
				return d.w.Final()
			}
			if dl := d.w.Deadline(); !dl.IsZero() && next.After(dl) {
				next = dl.Add(time.Millisecond)
			}
			d.tr(fmt.Sprintf("%d clock +%v", step, next.Sub(now)))
			time.Sleep(next.Sub(now))
			continue
		}
		c := d.pick(step, cands)
		simhook.SelectState = d.rng.Uint64() | 1
		switch {
		case c.task != nil:
			key := c.task.Role + "@" + c.task.Site
			if d.prevKey != "" && d.lastTask != c.task.ID {
				d.switches[simhook.HashString(d.prevKey+">"+key)] = struct{}{}
			}
			d.prevKey = key
			d.lastTask = c.task.ID
			d.tr(fmt.Sprintf("%d T%d %s", step, c.task.ID, key))
			rt.Release(c.task)
		case c.ev != nil:
			d.tr(fmt.Sprintf("%d E %s", step, c.label))
			if e := rt.TakeEvent(c.label); e != nil {
				e.Fn()
			}
		case c.timer != nil:
			if c.timer.Due.After(now) {
				time.Sleep(c.timer.Due.Sub(now))
			}
			d.tr(fmt.Sprintf("%d TM %s %s", step, c.label, c.timer.Owner))
			rt.FireTimer(c.label)
		}
	}
}

// Teardowner is implemented by worlds that can shut the code under test down after the verdict,
// so that its goroutines exit instead of staying blocked (and leaking) for the worker's lifetime.
type Teardowner interface {
	Teardown()
}

// teardown runs after the verdict and the hash are fixed; nothing it does is judged or recorded.
func (d *driver) teardown() {
	td, ok := d.w.(Teardowner)
	if !ok {
		return
	}
	defer func() { recover() }()
	defer synctest.Wait() // never leave a released task running when the runtime is uninstalled
	td.Teardown()
	r := simhook.NewRand(1)
	for i := 0; i < 6000; i++ {
		synctest.Wait()
		alive := false
		for _, t := range d.rt.Tasks() {
			if t.State != simhook.StDead {
				alive = true
				break
			}
		}
		if !alive {
			return
		}
		var cands []cand
		for _, t := range d.rt.Parked() {
			cands = append(cands, cand{task: t})
		}
		for _, e := range d.rt.Events() {
			if e.At.IsZero() {
				cands = append(cands, cand{label: e.Label, ev: e})
			}
		}
		if len(cands) == 0 {
			tms := d.rt.Timers()
			if len(tms) == 0 || i > 3000 {
				return
			}
			if dt := time.Until(tms[0].Due); dt > 0 {
				time.Sleep(dt)
			}
			d.rt.FireTimer(tms[0].Label)
			continue
		}
		c := cands[r.Intn(len(cands))]
		if c.task != nil {
			d.rt.Release(c.task)
		} else if e := d.rt.TakeEvent(c.label); e != nil {
			e.Fn()
		}
	}
}

func panicSites(rt *simhook.Runtime) []string {
	var out []string
	for _, t := range rt.Tasks() {
		if t.Panic != nil {
			out = append(out, "panic:"+t.Role+"@"+t.Site+":"+firstRepoFrame(t.Stack))
		}
	}
	return out
}

// firstRepoFrame extracts the innermost function of the repository from a panic stack.
func firstRepoFrame(st string) string {
	lines := strings.Split(st, "\n")
	seenPanic := false
	for _, l := range lines {
		if strings.HasPrefix(l, "panic(") {
			seenPanic = true
			continue
		}
		if !seenPanic {
			continue
		}
		if strings.HasPrefix(l, "github.com/samaritan-proxy/samaritan/") {
			f := strings.TrimPrefix(l, "github.com/samaritan-proxy/samaritan/")
			if i := strings.LastIndex(f, "("); i > 0 {
				f = f[:i]
			}
			return f
		}
	}
	return ""
}

func (d *driver) candidates(now time.Time) []cand {
	var out []cand
	// since when has the longest-waiting piece of runnable work been waiting?
	oldest := now
	for _, t := range d.rt.Parked() {
		out = append(out, cand{label: fmt.Sprintf("T%d", t.ID), task: t})
		if !t.RunnableSince.IsZero() && t.RunnableSince.Before(oldest) {
			oldest = t.RunnableSince
		}
	}
	for _, e := range d.rt.Events() {
		if !e.At.IsZero() && e.At.After(now) {
			continue
		}
		out = append(out, cand{label: e.Label, ev: e})
		ready := e.Created
		if e.At.After(ready) {
			ready = e.At
		}
		if !ready.IsZero() && ready.Before(oldest) {
			oldest = ready
		}
	}
	if d.finalDrain {
		return out
	}
	// A timer may fire although other work is runnable (a slow or descheduled task, a late delivery), but no piece of
	// runnable work is ever left waiting for more than the slack of simulated time: the clock cannot run away from
	// work that only needs a turn.
	limit := now
	if len(out) > 0 {
		limit = oldest.Add(d.opt.TimerSlack)
		if limit.Before(now) {
			limit = now
		}
	}
	for _, tm := range d.rt.Timers() {
		tm := tm
		if tm.Due.After(limit) {
			break
		}
		out = append(out, cand{label: tm.Label, timer: &tm})
	}
	return out
}

func (d *driver) nextTime(now time.Time) (time.Time, bool) {
	var best time.Time
	ok := false
	if tms := d.rt.Timers(); len(tms) > 0 {
		best, ok = tms[0].Due, true
	}
	for _, e := range d.rt.Events() {
		if !e.At.IsZero() && e.At.After(now) && (!ok || e.At.Before(best)) {
			best, ok = e.At, true
		}
	}
	if ok && !best.After(now) {
		best = now.Add(time.Nanosecond)
	}
	return best, ok
}

func (d *driver) pick(step int, cands []cand) cand {
	strat := d.opt.Strategy
	if d.w.Draining() || d.finalDrain {
		strat = "uniform"
	}
	switch strat {
	case "pct":
		return d.pickPCT(step, cands)
	case "sticky":
		// run-to-completion with occasional preemption
		if !d.rng.Chance(1, 12) {
			for _, c := range cands {
				if c.task != nil && c.task.ID == d.lastTask {
					return c
				}
			}
		}
		return cands[d.rng.Intn(len(cands))]
	case "starve":
		var rest []cand
		for _, c := range cands {
			if c.task != nil && ((d.opt.StarveRole == "" && c.task.ID == d.victim) || (d.opt.StarveRole != "" && strings.Contains(c.task.Role, d.opt.StarveRole))) {
				continue
			}
			rest = append(rest, c)
		}
		if len(rest) > 0 && !d.rng.Chance(1, 200) {
			return rest[d.rng.Intn(len(rest))]
		}
		return cands[d.rng.Intn(len(cands))]
	default:
		return cands[d.rng.Intn(len(cands))]
	}
}

func (d *driver) prioOf(label string) uint64 {
	p, ok := d.prio[label]
	if !ok {
		// network/timer events get per-connection priorities, tasks per-task
		key := label
		if i := strings.Index(label, "#"); i > 0 {
			key = label[:i]
		}
		p = simhook.Mix(d.opt.Seed^simhook.HashString("prio:"+key)) | (1 << 62)
		d.prio[label] = p
	}
	return p
}

func (d *driver) pickPCT(step int, cands []cand) cand {
	sort.SliceStable(cands, func(i, j int) bool { return d.prioOf(cands[i].label) > d.prioOf(cands[j].label) })
	c := cands[0]
	if d.changes[step] {
		// priority change point: the running candidate drops below everything else
		d.prio[c.label] = uint64(len(d.prio)) // small, distinct
		sort.SliceStable(cands, func(i, j int) bool { return d.prioOf(cands[i].label) > d.prioOf(cands[j].label) })
		c = cands[0]
	}
	return c
}

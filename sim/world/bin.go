package world

import (
	"encoding/json"
	"strconv"
)

// Bin is a byte string that serialises as a Go-quoted string, so replay files stay readable and exact.
type Bin []byte

func (b Bin) MarshalJSON() ([]byte, error) {
	return json.Marshal(strconv.QuoteToASCII(string(b)))
}

func (b *Bin) UnmarshalJSON(d []byte) error {
	var s string
	if err := json.Unmarshal(d, &s); err != nil {
		return err
	}
	u, err := strconv.Unquote(s)
	if err != nil {
		return err
	}
	*b = Bin(u)
	return nil
}

func Bins(ss ...string) []Bin {
	out := make([]Bin, len(ss))
	for i, s := range ss {
		out[i] = Bin(s)
	}
	return out
}

func BinsToBytes(bs []Bin) [][]byte {
	out := make([][]byte, len(bs))
	for i, b := range bs {
		out[i] = []byte(b)
	}
	return out
}

package world

import (
	"fmt"
	"time"

	"verif.local/sim/resp2"
	"verif.local/sim/simhook"
	"verif.local/sim/simnet"
)

// Request is one client request: either an array of bulk strings (Args) or raw bytes (Raw).
type Request struct {
	Args  []Bin  `json:"args,omitempty"`
	Raw   Bin    `json:"raw,omitempty"`    // sent verbatim when non-empty (inline commands, malformed frames)
	Cut   []int  `json:"cut,omitempty"`    // sender-side split points inside the encoding (ascending offsets)
	Wait  bool   `json:"wait,omitempty"`   // do not send until every earlier request of this connection is answered
	Gap   int    `json:"gap_ms,omitempty"` // let this much simulated time pass before sending
	GapNs int    `json:"gap_ns,omitempty"` // additional nanoseconds
	Tag   string `json:"tag,omitempty"`
}

func (r Request) Encode() []byte {
	if len(r.Raw) > 0 {
		return []byte(r.Raw)
	}
	return resp2.Cmd(BinsToBytes(r.Args)...)
}

type Sent struct {
	Idx        int
	InvokeStep int64
	InvokeTime time.Time
	DoneStep   int64 // -1 until answered
	DoneTime   time.Time
	Reply      resp2.Value
	Answered   bool
}

// Client is a well-behaved downstream client actor: it connects to the proxy's listener,
// sends its script with the scripted fragmentation and parses replies with resp2.
type Client struct {
	Name    string
	rt      *simhook.Runtime
	net     *simnet.Net
	addr    string
	Script  []Request
	End     *simnet.End
	Sent    []*Sent
	next    int // next request to send
	chunks  [][]byte
	rbuf    []byte
	Replies int
	seq     int

	Connected      bool
	ConnectErr     error
	EOF            bool // proxy closed the connection
	Reset          bool
	ParseErr       error
	Extra          []byte // bytes after the last expected reply
	StartAfter     time.Time
	SlowRead       int // >0: take at most this many bytes per read event
	OnReply        func(c *Client, s *Sent)
	Paused         bool
	cur            *Sent
	Refused        int
	GaveUp         bool
	LastSendAt     time.Time
	readEv         string
	MaxOutstanding int // 0 = unlimited pipelining
	// LeaveAfter > 0: the client closes its connection as soon as it has read this many replies, whatever it has
	// sent since (a client that goes away in the middle of a pipeline). Left reports that it did.
	LeaveAfter int
	Left       bool
	// Gate, when set, must allow request idx to be sent (global sequencing); Kick re-evaluates it.
	Gate func(c *Client, idx int) bool
}

// Kick re-evaluates whether the next request may be sent (used with Gate).
func (c *Client) Kick() {
	if c.Connected && len(c.chunks) == 0 && c.next < len(c.Script) {
		c.pump()
	}
}

func NewClient(rt *simhook.Runtime, net *simnet.Net, name, addr string, script []Request) *Client {
	return &Client{Name: name, rt: rt, net: net, addr: addr, Script: script}
}

// Start schedules the connect.
func (c *Client) Start() { c.rt.AddEvent("cl:"+c.Name+":connect", c.connect) }

func (c *Client) connect() {
	e, err := c.net.Connect(c.addr, "client-"+c.Name)
	if err != nil {
		// listener not (yet) there: retry a little later, give up after a while
		c.Refused++
		c.ConnectErr = err
		if c.Refused > 700 {
			c.GaveUp = true
			return
		}
		c.seq++
		wait := 50 * time.Millisecond
		if c.Refused > 40 {
			wait = time.Second
		}
		c.rt.AddEventAt(time.Now().Add(wait), fmt.Sprintf("cl:%s:connect#%d", c.Name, c.seq), c.connect)
		return
	}
	c.End = e
	c.Connected = true
	e.OnData = func(*simnet.End) { c.onData() }
	e.OnEOF = func(*simnet.End) { c.EOF = true; c.rt.Logf("client %s sees EOF", c.Name) }
	e.OnReset = func(*simnet.End) { c.Reset = true; c.rt.Logf("client %s sees RST", c.Name) }
	c.rt.Logf("client %s connected as %s", c.Name, e.Name)
	c.pump()
}

func (c *Client) outstanding() int {
	n := 0
	for _, s := range c.Sent {
		if !s.Answered {
			n++
		}
	}
	return n
}

// pump schedules the next send event if there is something to send.
func (c *Client) pump() {
	if !c.Connected || c.EOF || c.Reset || c.Paused || c.Left {
		return
	}
	if len(c.chunks) == 0 {
		if c.next >= len(c.Script) {
			return
		}
		r := c.Script[c.next]
		if c.Gate != nil && !c.Gate(c, c.next) {
			return
		}
		if (r.Wait || (c.MaxOutstanding > 0 && c.outstanding() >= c.MaxOutstanding)) && c.outstanding() > 0 {
			return // resumed from onData
		}
		enc := r.Encode()
		prev := 0
		for _, k := range r.Cut {
			if k > prev && k < len(enc) {
				c.chunks = append(c.chunks, enc[prev:k])
				prev = k
			}
		}
		c.chunks = append(c.chunks, enc[prev:])
		c.next++
		s := &Sent{Idx: c.next - 1, DoneStep: -1}
		c.cur = s
		label := fmt.Sprintf("cl:%s:send#%06d", c.Name, c.seqNext())
		if r.Gap > 0 || r.GapNs > 0 {
			c.rt.AddEventAt(time.Now().Add(time.Duration(r.Gap)*time.Millisecond+time.Duration(r.GapNs)), label, func() { c.sendChunk(s, true) })
		} else {
			c.rt.AddEvent(label, func() { c.sendChunk(s, true) })
		}
		return
	}
	s := c.cur
	c.rt.AddEvent(fmt.Sprintf("cl:%s:send#%06d", c.Name, c.seqNext()), func() { c.sendChunk(s, false) })
}

func (c *Client) seqNext() int { c.seq++; return c.seq }

func (c *Client) sendChunk(s *Sent, first bool) {
	if c.EOF || c.Reset || c.Left || len(c.chunks) == 0 {
		return
	}
	if first {
		// the request counts as issued from the moment its first byte is handed to the network
		s.InvokeStep = c.rt.Step
		s.InvokeTime = time.Now()
		c.Sent = append(c.Sent, s)
		c.LastSendAt = s.InvokeTime
	}
	ch := c.chunks[0]
	c.chunks = c.chunks[1:]
	c.End.Send(ch)
	c.pump()
}

func (c *Client) onData() {
	if c.SlowRead > 0 {
		if c.readEv == "" {
			c.readEv = fmt.Sprintf("cl:%s:read#%06d", c.Name, c.seqNext())
			c.rt.AddEvent(c.readEv, func() {
				c.readEv = ""
				b := c.End.Take()
				c.consume(b)
			})
		}
		return
	}
	c.consume(c.End.Take())
}

func (c *Client) consume(b []byte) {
	c.rbuf = append(c.rbuf, b...)
	for c.ParseErr == nil {
		v, k, err := resp2.Parse(c.rbuf)
		if err == resp2.ErrIncomplete {
			break
		}
		if err != nil {
			c.ParseErr = err
			break
		}
		c.rbuf = c.rbuf[k:]
		if c.Replies >= len(c.Sent) {
			// a reply nobody asked for
			c.Extra = append(c.Extra, v.Bytes()...)
			continue
		}
		s := c.Sent[c.Replies]
		s.Reply, s.Answered = v, true
		s.DoneStep, s.DoneTime = c.rt.Step, time.Now()
		c.Replies++
		if c.OnReply != nil {
			c.OnReply(c, s)
		}
		if c.LeaveAfter > 0 && c.Replies >= c.LeaveAfter && !c.Left {
			c.Left = true
			c.rt.Logf("client %s leaves after %d replies with %d requests unanswered", c.Name, c.Replies, len(c.Sent)-c.Replies)
			c.End.ActorClose()
			return
		}
	}
	if len(c.chunks) == 0 {
		c.pump()
	}
}

// AllSent: the whole script has been written.
func (c *Client) AllSent() bool { return c.next >= len(c.Script) && len(c.chunks) == 0 }

// Settled: every request written so far is answered, or the proxy ended the connection.
func (c *Client) Settled() bool {
	if !c.Connected {
		return false
	}
	if c.EOF || c.Reset || c.Left {
		return true
	}
	return c.AllSent() && c.Replies == len(c.Sent)
}

// Pending returns trailing unparsed bytes.
func (c *Client) Pending() []byte { return c.rbuf }

// Accepted reports whether the proxy's Accept returned this connection.
func (c *Client) Accepted() bool { return c.End != nil && c.End.Peer().Owned }

// Close closes the client side (FIN).
func (c *Client) Close() {
	if c.End != nil {
		c.End.ActorClose()
	}
}

package world

import (
	"fmt"
	"time"

	"github.com/samaritan-proxy/samaritan/host"
	"github.com/samaritan-proxy/samaritan/pb/common"
	pbhc "github.com/samaritan-proxy/samaritan/pb/config/hc"
	"github.com/samaritan-proxy/samaritan/pb/config/protocol"
	"github.com/samaritan-proxy/samaritan/pb/config/service"
	"github.com/samaritan-proxy/samaritan/proc"

	"verif.local/sim/simhook"
	"verif.local/sim/simnet"
)

// TCPCfg describes the simulated deployment of one TCP service.
type TCPCfg struct {
	Backends   int    `json:"backends"`
	BackupFrom int    `json:"backup_from,omitempty"` // backends with index >= BackupFrom (when > 0) are backup hosts
	Policy     int    `json:"policy,omitempty"`      // service.LoadBalancePolicy
	ConnLimit  uint32 `json:"conn_limit,omitempty"`
	IdleMs     int    `json:"idle_ms,omitempty"`
	ConnectMs  int    `json:"connect_ms,omitempty"`
	HC         *HCCfg `json:"hc,omitempty"`
	FragNum    int    `json:"frag_num,omitempty"`
	FragDen    int    `json:"frag_den,omitempty"`
	BufCap     int    `json:"buf_cap,omitempty"`
	ListenBusy int    `json:"listen_busy,omitempty"`
	InitHosts  []int  `json:"init_hosts,omitempty"` // indices of backends in the initial host set (nil: all)
}

type HCCfg struct {
	IntervalMs int `json:"interval_ms"`
	TimeoutMs  int `json:"timeout_ms"`
	Fall       int `json:"fall"`
	Rise       int `json:"rise"`
}

const TCPProxyAddr = "127.0.0.1:9000"

func BackendAddr(i int) string { return fmt.Sprintf("10.1.0.%d:80", i+1) }

// Backend is a scripted TCP backend: it answers health probes ("ping" -> "pong") and hands data
// connections to OnConn.
type Backend struct {
	Idx       int
	Addr      string
	env       *TCPEnv
	Accepting bool // false: connections are refused
	ProbeOK   bool // answers health probes
	Silent    bool // accepts and never sends anything
	NoProbe   bool // every connection is a data connection from the first moment (no health checker configured)
	Accepts   int
	Probes    int
	Conns     []*simnet.End
	OnConn    func(b *Backend, e *simnet.End, first []byte)
}

func (b *Backend) Accept(e *simnet.End) {
	b.Accepts++
	b.Conns = append(b.Conns, e)
	if b.NoProbe {
		if b.OnConn != nil {
			b.OnConn(b, e, nil)
		}
		return
	}
	var buf []byte
	decided := false
	e.OnData = func(e *simnet.End) {
		if decided {
			return
		}
		buf = append(buf, e.Take()...)
		if len(buf) < 4 {
			return
		}
		decided = true
		if string(buf[:4]) == "ping" {
			b.Probes++
			if b.ProbeOK && !b.Silent {
				e.Send([]byte("pong"))
			}
			e.OnEOF = func(e *simnet.End) { e.ActorClose() }
			return
		}
		if b.OnConn != nil {
			b.OnConn(b, e, buf)
		}
	}
	e.OnEOF = func(e *simnet.End) {
		if !decided {
			e.ActorClose()
		}
	}
}

type TCPEnv struct {
	RT       *simhook.Runtime
	Net      *simnet.Net
	Cfg      TCPCfg
	Name     string
	Proc     proc.Proc
	SvcCfg   *service.Config
	Backends []*Backend

	StartTask, StopTask, DrainTask *simhook.Task
	Started, StopReturned          bool
	DrainReturned                  bool
	StopCalledAt                   time.Time
	BuildErr                       error
}

func NewTCPEnv(rt *simhook.Runtime, cfg TCPCfg) *TCPEnv {
	e := &TCPEnv{RT: rt, Cfg: cfg, Name: UniqueName("tsvc")}
	e.Net = simnet.New(rt)
	e.Net.FragNum, e.Net.FragDen = cfg.FragNum, cfg.FragDen
	if e.Net.FragDen == 0 {
		e.Net.FragDen = 1
	}
	e.Net.BufCap = cfg.BufCap
	if cfg.ListenBusy > 0 {
		e.Net.ListenFail[TCPProxyAddr] = cfg.ListenBusy
	}
	for i := 0; i < cfg.Backends; i++ {
		b := &Backend{Idx: i, Addr: BackendAddr(i), env: e, Accepting: true, ProbeOK: true}
		e.Backends = append(e.Backends, b)
		e.Net.Serve(b.Addr, b)
	}
	return e
}

// SetAccepting switches a backend between accepting and refusing connections.
func (e *TCPEnv) SetAccepting(i int, on bool) {
	b := e.Backends[i]
	b.Accepting = on
	if on {
		e.Net.SetDown(b.Addr, simnet.DialOK)
	} else {
		e.Net.SetDown(b.Addr, simnet.DialRefused)
	}
}

func (e *TCPEnv) HostOf(i int) *host.Host {
	t := host.TypeMain
	if e.Cfg.BackupFrom > 0 && i >= e.Cfg.BackupFrom {
		t = host.TypeBackup
	}
	return host.NewWithType(BackendAddr(i), t)
}

func (e *TCPEnv) svcConfig() *service.Config {
	ct := 3 * time.Second
	if e.Cfg.ConnectMs > 0 {
		ct = time.Duration(e.Cfg.ConnectMs) * time.Millisecond
	}
	it := 5 * time.Minute
	if e.Cfg.IdleMs > 0 {
		it = time.Duration(e.Cfg.IdleMs) * time.Millisecond
	}
	cfg := &service.Config{
		Listener:       &service.Listener{Address: &common.Address{Ip: "127.0.0.1", Port: 9000}, ConnectionLimit: e.Cfg.ConnLimit},
		ConnectTimeout: &ct, IdleTimeout: &it, Protocol: protocol.TCP,
		LbPolicy: service.LoadBalancePolicy(e.Cfg.Policy),
	}
	if h := e.Cfg.HC; h != nil {
		cfg.HealthCheck = &pbhc.HealthCheck{
			Interval: time.Duration(h.IntervalMs) * time.Millisecond, Timeout: time.Duration(h.TimeoutMs) * time.Millisecond,
			FallThreshold: uint32(h.Fall), RiseThreshold: uint32(h.Rise),
			Checker: &pbhc.HealthCheck_AtcpChecker{AtcpChecker: &pbhc.ATCPChecker{Action: []*pbhc.ATCPChecker_Action{{Send: []byte(`"ping"`), Expect: []byte(`"pong"`)}}}},
		}
	}
	return cfg
}

// SvcConfigVariant: the service configuration with the idle timeout lengthened by k milliseconds and nothing else
// changed (what a configuration update that does not touch policy, health check or listener looks like).
func (e *TCPEnv) SvcConfigVariant(k int) *service.Config {
	cfg := e.svcConfig()
	it := *cfg.IdleTimeout + time.Duration(k)*time.Millisecond
	cfg.IdleTimeout = &it
	return cfg
}

// SvcConfigHC: the service configuration with a different health-check section (interval lengthened by k x 100 ms; a
// section is added when there was none) and nothing else changed.
func (e *TCPEnv) SvcConfigHC(k int) *service.Config {
	saved := e.Cfg.HC
	h := HCCfg{IntervalMs: 2000, TimeoutMs: 1000, Fall: 2, Rise: 2}
	if saved != nil {
		h = *saved
	}
	h.IntervalMs += 100 * k
	e.Cfg.HC = &h
	cfg := e.svcConfig()
	e.Cfg.HC = saved
	return cfg
}

func (e *TCPEnv) Start() {
	e.SvcCfg = e.svcConfig()
	var hs []*host.Host
	if e.Cfg.InitHosts == nil {
		for i := range e.Backends {
			hs = append(hs, e.HostOf(i))
		}
	} else {
		for _, i := range e.Cfg.InitHosts {
			if i < len(e.Backends) {
				hs = append(hs, e.HostOf(i))
			}
		}
	}
	e.StartTask = e.RT.Go("harness:start", func() {
		p, err := proc.New(e.Name, e.SvcCfg, hs)
		if err != nil {
			e.BuildErr = err
			return
		}
		e.Proc = p
		p.Start()
		e.Started = true
	})
}

func (e *TCPEnv) Stop() {
	if e.StopTask != nil {
		return
	}
	e.StopCalledAt = time.Now()
	e.StopTask = e.RT.Go("harness:stop", func() {
		if e.Proc != nil {
			e.Proc.Stop()
		}
		e.StopReturned = true
	})
}

func (e *TCPEnv) Drain() {
	if e.DrainTask != nil {
		return
	}
	e.DrainTask = e.RT.Go("harness:drain", func() {
		if e.Proc != nil {
			e.Proc.StopListen()
		}
		e.DrainReturned = true
	})
}

// Quiet: no parked task, no pending immediate event.
func (e *TCPEnv) Quiet() bool {
	if len(e.RT.Parked()) > 0 {
		return false
	}
	for _, ev := range e.RT.Events() {
		if ev.At.IsZero() {
			return false
		}
	}
	return true
}

package world

import (
	"fmt"
	"strings"
	"sync/atomic"
	"time"

	tlog "github.com/tevino/log"

	"github.com/samaritan-proxy/samaritan/host"
	"github.com/samaritan-proxy/samaritan/logger"
	"github.com/samaritan-proxy/samaritan/pb/common"
	"github.com/samaritan-proxy/samaritan/pb/config/protocol"
	pbredis "github.com/samaritan-proxy/samaritan/pb/config/protocol/redis"
	"github.com/samaritan-proxy/samaritan/pb/config/service"
	"github.com/samaritan-proxy/samaritan/proc"
	_ "github.com/samaritan-proxy/samaritan/proc/redis"
	_ "github.com/samaritan-proxy/samaritan/proc/tcp"
	"github.com/samaritan-proxy/samaritan/stats"

	"verif.local/sim/cluster"
	"verif.local/sim/refredis"
	"verif.local/sim/simhook"
	"verif.local/sim/simnet"
)

func init() {
	logger.Get().SetOutputLevel(tlog.FATA)
}

var svcCounter atomic.Int64

// DropStats deletes the statistics scopes of a service (the store is process-wide and the proxy never
// deletes them; a worker runs thousands of services).
func DropStats(name string) {
	prefix := "service." + name + "."
	for _, sc := range stats.Scopes() {
		if len(sc.Name()) >= len(prefix) && sc.Name()[:len(prefix)] == prefix {
			stats.DeleteScope(sc)
		}
	}
}

// UniqueName returns a process-unique service name (the statistics store is process-wide).
func UniqueName(prefix string) string {
	return fmt.Sprintf("%s%d", prefix, svcCounter.Add(1))
}

type SlotRange struct {
	From int `json:"from"`
	To   int `json:"to"`
	Node int `json:"node"`
}

type KV struct {
	K Bin `json:"k"`
	V Bin `json:"v"`
}

type Compression struct {
	Enable    bool   `json:"enable"`
	Threshold uint32 `json:"threshold"`
}

// RedisCfg describes the simulated deployment of one Redis service.
type RedisCfg struct {
	Masters      int          `json:"masters"`
	Replicas     int          `json:"replicas,omitempty"` // per master
	Layout       []SlotRange  `json:"layout,omitempty"`   // default: even split
	ReadStrategy int          `json:"read_strategy,omitempty"`
	Compression  *Compression `json:"compression,omitempty"`
	// CompressionLate: the service starts without any compression section in its options; the section of
	// Compression only arrives with a later configuration update
	CompressionLate bool   `json:"compression_late,omitempty"`
	ConnLimit       uint32 `json:"conn_limit,omitempty"`
	Preload         []KV   `json:"preload,omitempty"`
	ListenBusy      int    `json:"listen_busy,omitempty"`
	ConnectMs       int    `json:"connect_timeout_ms,omitempty"`
	SeedMasters     bool   `json:"seed_masters_only,omitempty"` // host list = masters only
	FragNum         int    `json:"frag_num,omitempty"`
	FragDen         int    `json:"frag_den,omitempty"`
	BufCap          int    `json:"buf_cap,omitempty"`
	// SeedNodes: when not empty the host list consists of these nodes only (the other nodes exist in the cluster and are
	// reached through redirections, but discovery has not announced them)
	SeedNodes []int `json:"seed_nodes,omitempty"`
	// NamedSeeds: the host list names the nodes by host name (node-<i>.cluster.test:<port>) instead of by IP address;
	// the cluster itself (CLUSTER NODES, MOVED, ASK) keeps speaking in IP addresses, as a real one does
	NamedSeeds bool `json:"named_seeds,omitempty"`
	// BackupHosts: this many extra members of type backup in the host list (standby addresses where nothing
	// listens); while a main member is usable the service must not use them for anything
	BackupHosts int `json:"backup_hosts,omitempty"`
}

const ProxyAddr = "127.0.0.1:6379"

type RedisEnv struct {
	RT      *simhook.Runtime
	Net     *simnet.Net
	Cluster *cluster.Cluster
	Cfg     RedisCfg
	Name    string
	Proc    proc.Proc
	SvcCfg  *service.Config
	Ref     *refredis.Store // single-server reference holding all data
	Clients []*Client

	StartTask, StopTask *simhook.Task
	Started, Stopped    bool
	StopReturned        bool
	StopCalledAt        time.Time
	readyFns            []func()
	ready               bool
	BuildErr            error
}

func NewRedisEnv(rt *simhook.Runtime, cfg RedisCfg) *RedisEnv {
	e := &RedisEnv{RT: rt, Cfg: cfg, Name: UniqueName("rsvc"), Ref: refredis.New()}
	e.Net = simnet.New(rt)
	e.Net.FragNum, e.Net.FragDen = cfg.FragNum, cfg.FragDen
	if e.Net.FragDen == 0 {
		e.Net.FragDen = 1
	}
	e.Net.BufCap = cfg.BufCap
	if cfg.ListenBusy > 0 {
		e.Net.ListenFail[ProxyAddr] = cfg.ListenBusy
	}
	c := cluster.New(rt, e.Net)
	e.Cluster = c
	if cfg.Masters < 1 {
		cfg.Masters = 1
	}
	for i := 0; i < cfg.Masters; i++ {
		c.AddNode(-1)
	}
	for i := 0; i < cfg.Masters; i++ {
		for r := 0; r < cfg.Replicas; r++ {
			c.AddNode(i)
		}
	}
	if len(cfg.Layout) == 0 {
		per := cluster.NumSlots / cfg.Masters
		for i := 0; i < cfg.Masters; i++ {
			to := (i+1)*per - 1
			if i == cfg.Masters-1 {
				to = cluster.NumSlots - 1
			}
			c.Assign(i*per, to, i)
		}
	} else {
		for _, r := range cfg.Layout {
			c.Assign(r.From, r.To, r.Node)
		}
	}
	for _, kv := range cfg.Preload {
		o := c.OwnerOfKey(kv.K)
		if o >= 0 {
			c.Nodes[o].Store.SetString(string(kv.K), kv.V)
		}
		e.Ref.SetString(string(kv.K), kv.V)
	}
	return e
}

func (e *RedisEnv) svcConfig() *service.Config {
	ct := 3 * time.Second
	if e.Cfg.ConnectMs > 0 {
		ct = time.Duration(e.Cfg.ConnectMs) * time.Millisecond
	}
	it := 5 * time.Minute
	cfg := &service.Config{
		Listener:       &service.Listener{Address: &common.Address{Ip: "127.0.0.1", Port: 6379}, ConnectionLimit: e.Cfg.ConnLimit},
		ConnectTimeout: &ct, IdleTimeout: &it, Protocol: protocol.Redis,
	}
	if e.Cfg.ReadStrategy != 0 || (e.Cfg.Compression != nil && !e.Cfg.CompressionLate) {
		opt := &protocol.RedisOption{ReadStrategy: pbredis.ReadStrategy(e.Cfg.ReadStrategy)}
		if e.Cfg.Compression != nil && !e.Cfg.CompressionLate {
			opt.Compression = &pbredis.Compression{Enable: e.Cfg.Compression.Enable, Threshold: e.Cfg.Compression.Threshold, Algorithm: pbredis.Compression_SNAPPY}
		}
		cfg.ProtocolOptions = &service.Config_RedisOption{RedisOption: opt}
	}
	return cfg
}

func (e *RedisEnv) Hosts() []*host.Host {
	var hs []*host.Host
	for _, n := range e.Cluster.Nodes {
		if e.Cfg.SeedMasters && n.MasterOf >= 0 {
			continue
		}
		if len(e.Cfg.SeedNodes) > 0 {
			in := false
			for _, i := range e.Cfg.SeedNodes {
				in = in || i == n.Idx
			}
			if !in {
				continue
			}
		}
		addr := n.Addr
		if e.Cfg.NamedSeeds {
			addr = fmt.Sprintf("node-%d.cluster.test%s", n.Idx, n.Addr[strings.LastIndex(n.Addr, ":"):])
			e.Net.Alias(addr, n.Addr)
		}
		hs = append(hs, host.New(addr))
	}
	for i := 0; i < e.Cfg.BackupHosts; i++ {
		hs = append(hs, host.NewWithType(fmt.Sprintf("10.1.%d.250:7999", i), host.TypeBackup))
	}
	return hs
}

// Start builds and starts the service from a harness task.
func (e *RedisEnv) Start() {
	e.SvcCfg = e.svcConfig()
	e.StartTask = e.RT.Go("harness:start", func() {
		p, err := proc.New(e.Name, e.SvcCfg, e.Hosts())
		if err != nil {
			e.BuildErr = err
			return
		}
		e.Proc = p
		p.Start()
		e.Started = true
	})
}

// Stop calls Stop from a harness task (a schedule choice like any other).
func (e *RedisEnv) Stop() {
	if e.StopTask != nil {
		return
	}
	e.StopCalledAt = time.Now()
	e.StopTask = e.RT.Go("harness:stop", func() {
		e.Stopped = true
		if e.Proc != nil {
			e.Proc.Stop()
		}
		e.StopReturned = true
	})
}

func (e *RedisEnv) AddClient(name string, script []Request) *Client {
	c := NewClient(e.RT, e.Net, name, ProxyAddr, script)
	e.Clients = append(e.Clients, c)
	return c
}

// WhenReady runs fn (driver context) once the proxy has loaded a routing table and is quiescent.
func (e *RedisEnv) WhenReady(fn func()) { e.readyFns = append(e.readyFns, fn) }

func (e *RedisEnv) Ready() bool { return e.ready }

// Step must be called from the world's Check at every quiescent point.
func (e *RedisEnv) Step() {
	if e.ready || len(e.readyFns) == 0 {
		return
	}
	if !e.Started || len(e.RT.Parked()) > 0 {
		return
	}
	seen := false
	for _, le := range e.Cluster.Log {
		if len(le.Args) == 2 && (string(le.Args[0]) == "cluster" || string(le.Args[0]) == "CLUSTER") {
			seen = true
			break
		}
	}
	if !seen {
		return
	}
	for _, ev := range e.RT.Events() {
		if len(ev.Label) > 4 && (ev.Label[:4] == "net:" || ev.Label[:5] == "node:") {
			return
		}
	}
	e.ready = true
	for _, fn := range e.readyFns {
		fn()
	}
}

// Quiet: no parked task, no pending network or node event (timers aside).
func (e *RedisEnv) Quiet() bool {
	if len(e.RT.Parked()) > 0 {
		return false
	}
	for _, ev := range e.RT.Events() {
		if ev.At.IsZero() {
			return false
		}
	}
	return true
}

// Package refredis is a small executable single-server Redis used as the reference model:
// strings, keys, hashes, lists, sets and sorted sets for the common commands, written from
// the Redis command documentation.  Commands outside the modelled subset are served in
// "opaque mode": their reply is a deterministic digest of (command bytes, per-key opaque
// version), so routing and byte-exact relaying of every forwarded command can be checked
// without modelling its semantics.  TTLs are stored but nothing ever expires.
package refredis

import (
	"bytes"
	"fmt"
	"sort"
	"strconv"
	"strings"

	"verif.local/sim/resp2"
)

type kind int

const (
	kString kind = iota + 1
	kHash
	kList
	kSet
	kZSet
)

func (k kind) String() string {
	return [...]string{"none", "string", "hash", "list", "set", "zset"}[k]
}

type pair struct {
	k string
	v []byte
}

type zmem struct {
	m string
	s float64
}

type Entry struct {
	Kind kind
	Str  []byte
	Hash []pair   // insertion order
	List [][]byte // head first
	Set  []string // insertion order
	ZSet []zmem
	TTL  int64 // milliseconds, 0 = none
}

type Store struct {
	m      map[string]*Entry
	opaque map[string]int
}

func New() *Store { return &Store{m: map[string]*Entry{}, opaque: map[string]int{}} }

func (s *Store) Len() int { return len(s.m) }

// Clone returns a deep copy.
func (s *Store) Clone() *Store {
	c := New()
	for k, e := range s.m {
		ne := &Entry{Kind: e.Kind, TTL: e.TTL}
		ne.Str = append([]byte(nil), e.Str...)
		for _, p := range e.Hash {
			ne.Hash = append(ne.Hash, pair{p.k, append([]byte(nil), p.v...)})
		}
		for _, v := range e.List {
			ne.List = append(ne.List, append([]byte(nil), v...))
		}
		ne.Set = append([]string(nil), e.Set...)
		ne.ZSet = append([]zmem(nil), e.ZSet...)
		c.m[k] = ne
	}
	for k, v := range s.opaque {
		c.opaque[k] = v
	}
	return c
}

// Fingerprint is a deterministic digest of the whole content (state equality for model checking).
func (s *Store) Fingerprint() uint64 {
	h := uint64(14695981039346656037)
	mix := func(b []byte) {
		for _, c := range b {
			h ^= uint64(c)
			h *= 1099511628211
		}
		h ^= 0xfd
		h *= 1099511628211
	}
	for _, k := range s.Keys() {
		e := s.m[k]
		mix([]byte(k))
		mix([]byte{byte(e.Kind)})
		mix(e.Str)
		for _, p := range e.Hash {
			mix([]byte(p.k))
			mix(p.v)
		}
		for _, v := range e.List {
			mix(v)
		}
		for _, m := range e.Set {
			mix([]byte(m))
		}
		for _, z := range e.ZSet {
			mix([]byte(z.m))
			mix([]byte(strconv.FormatFloat(z.s, 'g', 17, 64)))
		}
		mix([]byte(strconv.FormatInt(e.TTL, 10)))
	}
	oks := make([]string, 0, len(s.opaque))
	for k := range s.opaque {
		oks = append(oks, k)
	}
	sort.Strings(oks)
	for _, k := range oks {
		mix([]byte(k))
		mix([]byte(strconv.Itoa(s.opaque[k])))
	}
	return h
}

func (s *Store) Keys() []string {
	ks := make([]string, 0, len(s.m))
	for k := range s.m {
		ks = append(ks, k)
	}
	sort.Strings(ks)
	return ks
}

func (s *Store) Has(key string) bool { _, ok := s.m[key]; return ok }

// HasAny: the key has typed or opaque state.
func (s *Store) HasAny(key string) bool {
	if _, ok := s.m[key]; ok {
		return true
	}
	_, ok := s.opaque[key]
	return ok
}

// Export removes a key (typed and opaque state) and returns it for Import elsewhere.
type Exported struct {
	E      *Entry
	Opaque int
	HasOpq bool
}

func (s *Store) Export(key string) Exported {
	x := Exported{E: s.m[key]}
	x.Opaque, x.HasOpq = s.opaque[key]
	delete(s.m, key)
	delete(s.opaque, key)
	return x
}

func (s *Store) Import(key string, x Exported) {
	if x.E != nil {
		s.m[key] = x.E
	}
	if x.HasOpq {
		s.opaque[key] = x.Opaque
	}
}

// RawString returns the stored bytes of a string key (for compression oracles).
func (s *Store) RawString(key string) ([]byte, bool) {
	e := s.m[key]
	if e == nil || e.Kind != kString {
		return nil, false
	}
	return e.Str, true
}

func (s *Store) RawHash(key string) map[string][]byte {
	e := s.m[key]
	if e == nil || e.Kind != kHash {
		return nil
	}
	out := map[string][]byte{}
	for _, p := range e.Hash {
		out[p.k] = p.v
	}
	return out
}

func (s *Store) SetString(key string, v []byte) {
	s.m[key] = &Entry{Kind: kString, Str: append([]byte{}, v...)}
}

var (
	wrongType = resp2.E("WRONGTYPE Operation against a key holding the wrong kind of value")
	okReply   = resp2.S("OK")
	notInt    = resp2.E("ERR value is not an integer or out of range")
	syntaxErr = resp2.E("ERR syntax error")
)

func arityErr(cmd string) resp2.Value {
	return resp2.E("ERR wrong number of arguments for '" + strings.ToLower(cmd) + "' command")
}

func (s *Store) get(key string, k kind) (*Entry, bool) {
	e := s.m[key]
	if e == nil {
		return nil, true
	}
	return e, e.Kind == k
}

func (s *Store) getOrCreate(key string, k kind) (*Entry, bool) {
	e := s.m[key]
	if e == nil {
		e = &Entry{Kind: k}
		s.m[key] = e
		return e, true
	}
	return e, e.Kind == k
}

func (s *Store) dropIfEmpty(key string) {
	e := s.m[key]
	if e == nil {
		return
	}
	switch e.Kind {
	case kHash:
		if len(e.Hash) == 0 {
			delete(s.m, key)
		}
	case kList:
		if len(e.List) == 0 {
			delete(s.m, key)
		}
	case kSet:
		if len(e.Set) == 0 {
			delete(s.m, key)
		}
	case kZSet:
		if len(e.ZSet) == 0 {
			delete(s.m, key)
		}
	}
}

func bulk(b []byte) resp2.Value { return resp2.B(append([]byte{}, b...)) }

// IsModelled reports whether the command has real semantics here (as opposed to opaque mode).
func IsModelled(cmd string) bool {
	_, ok := handlers[strings.ToLower(cmd)]
	return ok
}

// KeyIndex: position of the (first) key argument for a forwarded command.
func KeyIndex(cmd string) int {
	if strings.EqualFold(cmd, "eval") || strings.EqualFold(cmd, "evalsha") {
		return 3
	}
	return 1
}

type handler func(s *Store, a [][]byte) resp2.Value

var handlers map[string]handler

// Exec executes one command against the store.
func (s *Store) Exec(args [][]byte) resp2.Value {
	if len(args) == 0 {
		return resp2.E("ERR empty command")
	}
	name := strings.ToLower(string(args[0]))
	if h, ok := handlers[name]; ok {
		return h(s, args)
	}
	return s.execOpaque(name, args)
}

func digest(parts ...[]byte) uint64 {
	h := uint64(14695981039346656037)
	for _, p := range parts {
		for _, c := range p {
			h ^= uint64(c)
			h *= 1099511628211
		}
		h ^= 0xfe
		h *= 1099511628211
	}
	return h
}

func (s *Store) execOpaque(name string, args [][]byte) resp2.Value {
	ki := KeyIndex(name)
	if len(args) <= ki {
		return arityErr(name)
	}
	key := string(args[ki])
	v := s.opaque[key]
	s.opaque[key] = v + 1
	parts := append([][]byte{[]byte(name)}, args[1:]...)
	return resp2.BS(fmt.Sprintf("opq:%016x:%d", digest(parts...), v))
}

func parseInt(b []byte) (int64, bool) {
	if len(b) == 0 || len(b) > 20 {
		return 0, false
	}
	x, err := strconv.ParseInt(string(b), 10, 64)
	return x, err == nil
}

func init() {
	handlers = map[string]handler{
		"get": func(s *Store, a [][]byte) resp2.Value {
			if len(a) != 2 {
				return arityErr("get")
			}
			e, ok := s.get(string(a[1]), kString)
			if !ok {
				return wrongType
			}
			if e == nil {
				return resp2.Nil()
			}
			return bulk(e.Str)
		},
		"set": func(s *Store, a [][]byte) resp2.Value {
			if len(a) < 3 {
				return arityErr("set")
			}
			nx, xx := false, false
			var ttl int64
			for i := 3; i < len(a); i++ {
				switch strings.ToUpper(string(a[i])) {
				case "NX":
					nx = true
				case "XX":
					xx = true
				case "EX", "PX":
					if i+1 >= len(a) {
						return syntaxErr
					}
					x, ok := parseInt(a[i+1])
					if !ok || x <= 0 {
						return resp2.E("ERR invalid expire time in set")
					}
					if strings.EqualFold(string(a[i]), "EX") {
						x *= 1000
					}
					ttl = x
					i++
				default:
					return syntaxErr
				}
			}
			_, exists := s.m[string(a[1])]
			if (nx && exists) || (xx && !exists) || (nx && xx) {
				return resp2.Nil()
			}
			s.m[string(a[1])] = &Entry{Kind: kString, Str: append([]byte{}, a[2]...), TTL: ttl}
			return okReply
		},
		"setnx": func(s *Store, a [][]byte) resp2.Value {
			if len(a) != 3 {
				return arityErr("setnx")
			}
			if _, exists := s.m[string(a[1])]; exists {
				return resp2.I(0)
			}
			s.m[string(a[1])] = &Entry{Kind: kString, Str: append([]byte{}, a[2]...)}
			return resp2.I(1)
		},
		"setex":  setex(1000, "setex"),
		"psetex": setex(1, "psetex"),
		"getset": func(s *Store, a [][]byte) resp2.Value {
			if len(a) != 3 {
				return arityErr("getset")
			}
			e, ok := s.get(string(a[1]), kString)
			if !ok {
				return wrongType
			}
			old := resp2.Nil()
			if e != nil {
				old = bulk(e.Str)
			}
			s.m[string(a[1])] = &Entry{Kind: kString, Str: append([]byte{}, a[2]...)}
			return old
		},
		"append": func(s *Store, a [][]byte) resp2.Value {
			if len(a) != 3 {
				return arityErr("append")
			}
			e, ok := s.getOrCreate(string(a[1]), kString)
			if !ok {
				return wrongType
			}
			e.Str = append(e.Str, a[2]...)
			return resp2.I(int64(len(e.Str)))
		},
		"strlen": func(s *Store, a [][]byte) resp2.Value {
			if len(a) != 2 {
				return arityErr("strlen")
			}
			e, ok := s.get(string(a[1]), kString)
			if !ok {
				return wrongType
			}
			if e == nil {
				return resp2.I(0)
			}
			return resp2.I(int64(len(e.Str)))
		},
		"incr":   incrBy("incr", 1, false),
		"decr":   incrBy("decr", -1, false),
		"incrby": incrBy("incrby", 1, true),
		"decrby": incrBy("decrby", -1, true),
		"getrange": func(s *Store, a [][]byte) resp2.Value {
			if len(a) != 4 {
				return arityErr("getrange")
			}
			st, ok1 := parseInt(a[2])
			en, ok2 := parseInt(a[3])
			if !ok1 || !ok2 {
				return notInt
			}
			e, ok := s.get(string(a[1]), kString)
			if !ok {
				return wrongType
			}
			if e == nil {
				return resp2.BS("")
			}
			n := int64(len(e.Str))
			if st < 0 {
				st += n
			}
			if en < 0 {
				en += n
			}
			if st < 0 {
				st = 0
			}
			if en >= n {
				en = n - 1
			}
			if n == 0 || st > en {
				return resp2.BS("")
			}
			return bulk(e.Str[st : en+1])
		},
		"del":    sumKeys("del", func(s *Store, k string) int64 { return s.del(k) }),
		"unlink": sumKeys("unlink", func(s *Store, k string) int64 { return s.del(k) }),
		"exists": sumKeys("exists", func(s *Store, k string) int64 {
			if s.Has(k) {
				return 1
			}
			return 0
		}),
		"touch": sumKeys("touch", func(s *Store, k string) int64 {
			if s.Has(k) {
				return 1
			}
			return 0
		}),
		"type": func(s *Store, a [][]byte) resp2.Value {
			if len(a) != 2 {
				return arityErr("type")
			}
			e := s.m[string(a[1])]
			if e == nil {
				return resp2.S("none")
			}
			return resp2.S(e.Kind.String())
		},
		"expire":  expire("expire", 1000),
		"pexpire": expire("pexpire", 1),
		"ttl":     ttl("ttl", 1000),
		"pttl":    ttl("pttl", 1),
		"persist": func(s *Store, a [][]byte) resp2.Value {
			if len(a) != 2 {
				return arityErr("persist")
			}
			e := s.m[string(a[1])]
			if e == nil || e.TTL == 0 {
				return resp2.I(0)
			}
			e.TTL = 0
			return resp2.I(1)
		},
		"mget": func(s *Store, a [][]byte) resp2.Value {
			if len(a) < 2 {
				return arityErr("mget")
			}
			out := resp2.Value{Kind: resp2.Array, Arr: []resp2.Value{}}
			for _, k := range a[1:] {
				out.Arr = append(out.Arr, handlers["get"](s, [][]byte{[]byte("get"), k}))
			}
			return out
		},
		"mset": func(s *Store, a [][]byte) resp2.Value {
			if len(a) < 3 || len(a)%2 != 1 {
				return arityErr("mset")
			}
			for i := 1; i < len(a); i += 2 {
				s.m[string(a[i])] = &Entry{Kind: kString, Str: append([]byte{}, a[i+1]...)}
			}
			return okReply
		},
		// ---- hashes ----
		"hset":  hset("hset", false),
		"hmset": hset("hmset", true),
		"hsetnx": func(s *Store, a [][]byte) resp2.Value {
			if len(a) != 4 {
				return arityErr("hsetnx")
			}
			e, ok := s.getOrCreate(string(a[1]), kHash)
			if !ok {
				return wrongType
			}
			for _, p := range e.Hash {
				if p.k == string(a[2]) {
					return resp2.I(0)
				}
			}
			e.Hash = append(e.Hash, pair{string(a[2]), append([]byte{}, a[3]...)})
			return resp2.I(1)
		},
		"hget": func(s *Store, a [][]byte) resp2.Value {
			if len(a) != 3 {
				return arityErr("hget")
			}
			e, ok := s.get(string(a[1]), kHash)
			if !ok {
				return wrongType
			}
			if e != nil {
				for _, p := range e.Hash {
					if p.k == string(a[2]) {
						return bulk(p.v)
					}
				}
			}
			return resp2.Nil()
		},
		"hmget": func(s *Store, a [][]byte) resp2.Value {
			if len(a) < 3 {
				return arityErr("hmget")
			}
			e, ok := s.get(string(a[1]), kHash)
			if !ok {
				return wrongType
			}
			out := resp2.Value{Kind: resp2.Array, Arr: []resp2.Value{}}
			for _, f := range a[2:] {
				v := resp2.Nil()
				if e != nil {
					for _, p := range e.Hash {
						if p.k == string(f) {
							v = bulk(p.v)
						}
					}
				}
				out.Arr = append(out.Arr, v)
			}
			return out
		},
		"hgetall": hiter("hgetall", true, true),
		"hkeys":   hiter("hkeys", true, false),
		"hvals":   hiter("hvals", false, true),
		"hscan":   hscan,
		"hlen": func(s *Store, a [][]byte) resp2.Value {
			if len(a) != 2 {
				return arityErr("hlen")
			}
			e, ok := s.get(string(a[1]), kHash)
			if !ok {
				return wrongType
			}
			if e == nil {
				return resp2.I(0)
			}
			return resp2.I(int64(len(e.Hash)))
		},
		"hexists": func(s *Store, a [][]byte) resp2.Value {
			if len(a) != 3 {
				return arityErr("hexists")
			}
			e, ok := s.get(string(a[1]), kHash)
			if !ok {
				return wrongType
			}
			if e != nil {
				for _, p := range e.Hash {
					if p.k == string(a[2]) {
						return resp2.I(1)
					}
				}
			}
			return resp2.I(0)
		},
		"hdel": func(s *Store, a [][]byte) resp2.Value {
			if len(a) < 3 {
				return arityErr("hdel")
			}
			e, ok := s.get(string(a[1]), kHash)
			if !ok {
				return wrongType
			}
			n := int64(0)
			if e != nil {
				for _, f := range a[2:] {
					for i, p := range e.Hash {
						if p.k == string(f) {
							e.Hash = append(e.Hash[:i:i], e.Hash[i+1:]...)
							n++
							break
						}
					}
				}
				s.dropIfEmpty(string(a[1]))
			}
			return resp2.I(n)
		},
		"hstrlen": func(s *Store, a [][]byte) resp2.Value {
			if len(a) != 3 {
				return arityErr("hstrlen")
			}
			e, ok := s.get(string(a[1]), kHash)
			if !ok {
				return wrongType
			}
			if e != nil {
				for _, p := range e.Hash {
					if p.k == string(a[2]) {
						return resp2.I(int64(len(p.v)))
					}
				}
			}
			return resp2.I(0)
		},
		// ---- lists ----
		"lpush": push("lpush", true),
		"rpush": push("rpush", false),
		"lpop":  pop("lpop", true),
		"rpop":  pop("rpop", false),
		"llen": func(s *Store, a [][]byte) resp2.Value {
			if len(a) != 2 {
				return arityErr("llen")
			}
			e, ok := s.get(string(a[1]), kList)
			if !ok {
				return wrongType
			}
			if e == nil {
				return resp2.I(0)
			}
			return resp2.I(int64(len(e.List)))
		},
		"lrange": func(s *Store, a [][]byte) resp2.Value {
			if len(a) != 4 {
				return arityErr("lrange")
			}
			st, ok1 := parseInt(a[2])
			en, ok2 := parseInt(a[3])
			if !ok1 || !ok2 {
				return notInt
			}
			e, ok := s.get(string(a[1]), kList)
			if !ok {
				return wrongType
			}
			out := resp2.Value{Kind: resp2.Array, Arr: []resp2.Value{}}
			if e == nil {
				return out
			}
			n := int64(len(e.List))
			if st < 0 {
				st += n
			}
			if en < 0 {
				en += n
			}
			if st < 0 {
				st = 0
			}
			if en >= n {
				en = n - 1
			}
			for i := st; i <= en; i++ {
				out.Arr = append(out.Arr, bulk(e.List[i]))
			}
			return out
		},
		"lindex": func(s *Store, a [][]byte) resp2.Value {
			if len(a) != 3 {
				return arityErr("lindex")
			}
			i, ok1 := parseInt(a[2])
			if !ok1 {
				return notInt
			}
			e, ok := s.get(string(a[1]), kList)
			if !ok {
				return wrongType
			}
			if e == nil {
				return resp2.Nil()
			}
			if i < 0 {
				i += int64(len(e.List))
			}
			if i < 0 || i >= int64(len(e.List)) {
				return resp2.Nil()
			}
			return bulk(e.List[i])
		},
		// ---- sets ----
		"sadd": func(s *Store, a [][]byte) resp2.Value {
			if len(a) < 3 {
				return arityErr("sadd")
			}
			e, ok := s.getOrCreate(string(a[1]), kSet)
			if !ok {
				return wrongType
			}
			n := int64(0)
			for _, m := range a[2:] {
				if !contains(e.Set, string(m)) {
					e.Set = append(e.Set, string(m))
					n++
				}
			}
			return resp2.I(n)
		},
		"srem": func(s *Store, a [][]byte) resp2.Value {
			if len(a) < 3 {
				return arityErr("srem")
			}
			e, ok := s.get(string(a[1]), kSet)
			if !ok {
				return wrongType
			}
			n := int64(0)
			if e != nil {
				for _, m := range a[2:] {
					for i, x := range e.Set {
						if x == string(m) {
							e.Set = append(e.Set[:i:i], e.Set[i+1:]...)
							n++
							break
						}
					}
				}
				s.dropIfEmpty(string(a[1]))
			}
			return resp2.I(n)
		},
		"sismember": func(s *Store, a [][]byte) resp2.Value {
			if len(a) != 3 {
				return arityErr("sismember")
			}
			e, ok := s.get(string(a[1]), kSet)
			if !ok {
				return wrongType
			}
			if e != nil && contains(e.Set, string(a[2])) {
				return resp2.I(1)
			}
			return resp2.I(0)
		},
		"scard": func(s *Store, a [][]byte) resp2.Value {
			if len(a) != 2 {
				return arityErr("scard")
			}
			e, ok := s.get(string(a[1]), kSet)
			if !ok {
				return wrongType
			}
			if e == nil {
				return resp2.I(0)
			}
			return resp2.I(int64(len(e.Set)))
		},
		"smembers": func(s *Store, a [][]byte) resp2.Value {
			if len(a) != 2 {
				return arityErr("smembers")
			}
			e, ok := s.get(string(a[1]), kSet)
			if !ok {
				return wrongType
			}
			out := resp2.Value{Kind: resp2.Array, Arr: []resp2.Value{}}
			if e != nil {
				ms := append([]string{}, e.Set...)
				sort.Strings(ms)
				for _, m := range ms {
					out.Arr = append(out.Arr, resp2.BS(m))
				}
			}
			return out
		},
		// ---- sorted sets ----
		"zadd": func(s *Store, a [][]byte) resp2.Value {
			if len(a) < 4 || len(a)%2 != 0 {
				return arityErr("zadd")
			}
			type sm struct {
				s float64
				m string
			}
			var add []sm
			for i := 2; i < len(a); i += 2 {
				f, err := strconv.ParseFloat(string(a[i]), 64)
				if err != nil || f != f {
					return resp2.E("ERR value is not a valid float")
				}
				add = append(add, sm{f, string(a[i+1])})
			}
			e, ok := s.getOrCreate(string(a[1]), kZSet)
			if !ok {
				return wrongType
			}
			n := int64(0)
			for _, x := range add {
				found := false
				for i := range e.ZSet {
					if e.ZSet[i].m == x.m {
						e.ZSet[i].s = x.s
						found = true
					}
				}
				if !found {
					e.ZSet = append(e.ZSet, zmem{x.m, x.s})
					n++
				}
			}
			return resp2.I(n)
		},
		"zscore": func(s *Store, a [][]byte) resp2.Value {
			if len(a) != 3 {
				return arityErr("zscore")
			}
			e, ok := s.get(string(a[1]), kZSet)
			if !ok {
				return wrongType
			}
			if e != nil {
				for _, z := range e.ZSet {
					if z.m == string(a[2]) {
						return resp2.BS(strconv.FormatFloat(z.s, 'g', 17, 64))
					}
				}
			}
			return resp2.Nil()
		},
		"zcard": func(s *Store, a [][]byte) resp2.Value {
			if len(a) != 2 {
				return arityErr("zcard")
			}
			e, ok := s.get(string(a[1]), kZSet)
			if !ok {
				return wrongType
			}
			if e == nil {
				return resp2.I(0)
			}
			return resp2.I(int64(len(e.ZSet)))
		},
		"zrange": func(s *Store, a [][]byte) resp2.Value {
			if len(a) != 4 {
				return arityErr("zrange")
			}
			st, ok1 := parseInt(a[2])
			en, ok2 := parseInt(a[3])
			if !ok1 || !ok2 {
				return notInt
			}
			e, ok := s.get(string(a[1]), kZSet)
			if !ok {
				return wrongType
			}
			out := resp2.Value{Kind: resp2.Array, Arr: []resp2.Value{}}
			if e == nil {
				return out
			}
			zs := append([]zmem{}, e.ZSet...)
			sort.Slice(zs, func(i, j int) bool {
				if zs[i].s != zs[j].s {
					return zs[i].s < zs[j].s
				}
				return zs[i].m < zs[j].m
			})
			n := int64(len(zs))
			if st < 0 {
				st += n
			}
			if en < 0 {
				en += n
			}
			if st < 0 {
				st = 0
			}
			if en >= n {
				en = n - 1
			}
			for i := st; i <= en; i++ {
				out.Arr = append(out.Arr, resp2.BS(zs[i].m))
			}
			return out
		},
		"zrem": func(s *Store, a [][]byte) resp2.Value {
			if len(a) < 3 {
				return arityErr("zrem")
			}
			e, ok := s.get(string(a[1]), kZSet)
			if !ok {
				return wrongType
			}
			n := int64(0)
			if e != nil {
				for _, m := range a[2:] {
					for i, z := range e.ZSet {
						if z.m == string(m) {
							e.ZSet = append(e.ZSet[:i:i], e.ZSet[i+1:]...)
							n++
							break
						}
					}
				}
				s.dropIfEmpty(string(a[1]))
			}
			return resp2.I(n)
		},
	}
}

func contains(ss []string, s string) bool {
	for _, x := range ss {
		if x == s {
			return true
		}
	}
	return false
}

func (s *Store) del(k string) int64 {
	if _, ok := s.m[k]; ok {
		delete(s.m, k)
		return 1
	}
	return 0
}

func sumKeys(name string, f func(s *Store, k string) int64) handler {
	return func(s *Store, a [][]byte) resp2.Value {
		if len(a) < 2 {
			return arityErr(name)
		}
		n := int64(0)
		for _, k := range a[1:] {
			n += f(s, string(k))
		}
		return resp2.I(n)
	}
}

func setex(mult int64, name string) handler {
	return func(s *Store, a [][]byte) resp2.Value {
		if len(a) != 4 {
			return arityErr(name)
		}
		x, ok := parseInt(a[2])
		if !ok {
			return notInt
		}
		if x <= 0 {
			return resp2.E("ERR invalid expire time in " + name)
		}
		s.m[string(a[1])] = &Entry{Kind: kString, Str: append([]byte{}, a[3]...), TTL: x * mult}
		return okReply
	}
}

func incrBy(name string, sign int64, hasArg bool) handler {
	return func(s *Store, a [][]byte) resp2.Value {
		d := int64(1)
		if hasArg {
			if len(a) != 3 {
				return arityErr(name)
			}
			x, ok := parseInt(a[2])
			if !ok {
				return notInt
			}
			d = x
		} else if len(a) != 2 {
			return arityErr(name)
		}
		d *= sign
		e, ok := s.get(string(a[1]), kString)
		if !ok {
			return wrongType
		}
		cur := int64(0)
		if e != nil {
			x, ok := parseInt(e.Str)
			if !ok {
				return notInt
			}
			cur = x
		}
		if (d > 0 && cur > (1<<63-1)-d) || (d < 0 && cur < (-1<<63)-d) {
			return resp2.E("ERR increment or decrement would overflow")
		}
		cur += d
		if e == nil {
			e = &Entry{Kind: kString}
			s.m[string(a[1])] = e
		}
		e.Str = []byte(strconv.FormatInt(cur, 10))
		return resp2.I(cur)
	}
}

func expire(name string, mult int64) handler {
	return func(s *Store, a [][]byte) resp2.Value {
		if len(a) != 3 {
			return arityErr(name)
		}
		x, ok := parseInt(a[2])
		if !ok {
			return notInt
		}
		e := s.m[string(a[1])]
		if e == nil {
			return resp2.I(0)
		}
		if x <= 0 {
			x = 1
		}
		e.TTL = x * mult
		return resp2.I(1)
	}
}

func ttl(name string, div int64) handler {
	return func(s *Store, a [][]byte) resp2.Value {
		if len(a) != 2 {
			return arityErr(name)
		}
		e := s.m[string(a[1])]
		if e == nil {
			return resp2.I(-2)
		}
		if e.TTL == 0 {
			return resp2.I(-1)
		}
		return resp2.I((e.TTL + div - 1) / div)
	}
}

func hset(name string, okReplyForm bool) handler {
	return func(s *Store, a [][]byte) resp2.Value {
		if len(a) < 4 || len(a)%2 != 0 {
			return arityErr(name)
		}
		e, ok := s.getOrCreate(string(a[1]), kHash)
		if !ok {
			return wrongType
		}
		n := int64(0)
		for i := 2; i < len(a); i += 2 {
			found := false
			for j := range e.Hash {
				if e.Hash[j].k == string(a[i]) {
					e.Hash[j].v = append([]byte{}, a[i+1]...)
					found = true
				}
			}
			if !found {
				e.Hash = append(e.Hash, pair{string(a[i]), append([]byte{}, a[i+1]...)})
				n++
			}
		}
		if okReplyForm {
			return okReply
		}
		return resp2.I(n)
	}
}

func hiter(name string, keys, vals bool) handler {
	return func(s *Store, a [][]byte) resp2.Value {
		if len(a) != 2 {
			return arityErr(name)
		}
		e, ok := s.get(string(a[1]), kHash)
		if !ok {
			return wrongType
		}
		out := resp2.Value{Kind: resp2.Array, Arr: []resp2.Value{}}
		if e != nil {
			for _, p := range e.Hash {
				if keys {
					out.Arr = append(out.Arr, resp2.BS(p.k))
				}
				if vals {
					out.Arr = append(out.Arr, bulk(p.v))
				}
			}
		}
		return out
	}
}

// hscan: HSCAN key 0 [COUNT n] answers the whole hash in one page (cursor 0), which a server is free to do; other
// cursors and MATCH are not modelled.
func hscan(s *Store, a [][]byte) resp2.Value {
	if len(a) < 3 {
		return arityErr("hscan")
	}
	if string(a[2]) != "0" || (len(a) != 3 && !(len(a) == 5 && strings.EqualFold(string(a[3]), "count"))) {
		return syntaxErr
	}
	e, ok := s.get(string(a[1]), kHash)
	if !ok {
		return wrongType
	}
	page := resp2.Value{Kind: resp2.Array, Arr: []resp2.Value{}}
	if e != nil {
		for _, p := range e.Hash {
			page.Arr = append(page.Arr, resp2.BS(p.k), bulk(p.v))
		}
	}
	return resp2.Value{Kind: resp2.Array, Arr: []resp2.Value{resp2.BS("0"), page}}
}

func push(name string, left bool) handler {
	return func(s *Store, a [][]byte) resp2.Value {
		if len(a) < 3 {
			return arityErr(name)
		}
		e, ok := s.getOrCreate(string(a[1]), kList)
		if !ok {
			return wrongType
		}
		for _, v := range a[2:] {
			cp := append([]byte{}, v...)
			if left {
				e.List = append([][]byte{cp}, e.List...)
			} else {
				e.List = append(e.List, cp)
			}
		}
		return resp2.I(int64(len(e.List)))
	}
}

func pop(name string, left bool) handler {
	return func(s *Store, a [][]byte) resp2.Value {
		if len(a) != 2 {
			return arityErr(name)
		}
		e, ok := s.get(string(a[1]), kList)
		if !ok {
			return wrongType
		}
		if e == nil || len(e.List) == 0 {
			return resp2.Nil()
		}
		var v []byte
		if left {
			v = e.List[0]
			e.List = e.List[1:]
		} else {
			v = e.List[len(e.List)-1]
			e.List = e.List[:len(e.List)-1]
		}
		s.dropIfEmpty(string(a[1]))
		return bulk(v)
	}
}

// Match implements Redis glob-style patterns (*, ?, [set], \x).
func Match(pat, s []byte) bool {
	for len(pat) > 0 {
		switch pat[0] {
		case '*':
			for len(pat) > 1 && pat[1] == '*' {
				pat = pat[1:]
			}
			if len(pat) == 1 {
				return true
			}
			for i := 0; i <= len(s); i++ {
				if Match(pat[1:], s[i:]) {
					return true
				}
			}
			return false
		case '?':
			if len(s) == 0 {
				return false
			}
			s = s[1:]
			pat = pat[1:]
		case '[':
			if len(s) == 0 {
				return false
			}
			j := 1
			neg := j < len(pat) && pat[j] == '^'
			if neg {
				j++
			}
			matched := false
			for j < len(pat) && pat[j] != ']' {
				if pat[j] == '\\' && j+1 < len(pat) {
					j++
					if pat[j] == s[0] {
						matched = true
					}
				} else if j+2 < len(pat) && pat[j+1] == '-' && pat[j+2] != ']' {
					lo, hi := pat[j], pat[j+2]
					if lo > hi {
						lo, hi = hi, lo
					}
					if s[0] >= lo && s[0] <= hi {
						matched = true
					}
					j += 2
				} else if pat[j] == s[0] {
					matched = true
				}
				j++
			}
			if j < len(pat) {
				j++
			}
			if matched == neg {
				return false
			}
			s = s[1:]
			pat = pat[j:]
		case '\\':
			if len(pat) >= 2 {
				pat = pat[1:]
			}
			fallthrough
		default:
			if len(s) == 0 || s[0] != pat[0] {
				return false
			}
			s = s[1:]
			pat = pat[1:]
		}
	}
	return len(s) == 0
}

var _ = bytes.Equal

// Package resp2 is the harness's own RESP (REdis Serialization Protocol, version 2) codec,
// written from the protocol specification; it shares no code with the repository's codec.
package resp2

import (
	"bytes"
	"errors"
	"fmt"
	"strconv"
)

const (
	Simple = '+'
	Err    = '-'
	Int    = ':'
	Bulk   = '$'
	Array  = '*'
)

type Value struct {
	Kind byte
	Str  []byte
	Int  int64
	Arr  []Value
	Null bool // null bulk string / null array
}

var ErrIncomplete = errors.New("resp2: incomplete")

type ProtoError struct{ Msg string }

func (e *ProtoError) Error() string { return "resp2: " + e.Msg }

func line(b []byte) ([]byte, int, error) {
	i := bytes.IndexByte(b, '\n')
	if i < 0 {
		return nil, 0, ErrIncomplete
	}
	if i == 0 || b[i-1] != '\r' {
		return nil, 0, &ProtoError{"line not terminated by CRLF"}
	}
	return b[:i-1], i + 1, nil
}

// Parse decodes one value from the front of b and returns the number of bytes consumed.
func Parse(b []byte) (Value, int, error) { return parse(b, 0) }

func parse(b []byte, depth int) (Value, int, error) {
	if len(b) == 0 {
		return Value{}, 0, ErrIncomplete
	}
	if depth > 64 {
		return Value{}, 0, &ProtoError{"nesting too deep"}
	}
	switch b[0] {
	case Simple, Err:
		l, n, err := line(b[1:])
		if err != nil {
			return Value{}, 0, err
		}
		return Value{Kind: b[0], Str: append([]byte{}, l...)}, 1 + n, nil
	case Int:
		l, n, err := line(b[1:])
		if err != nil {
			return Value{}, 0, err
		}
		x, perr := strconv.ParseInt(string(l), 10, 64)
		if perr != nil {
			return Value{}, 0, &ProtoError{"bad integer " + strconv.Quote(string(l))}
		}
		return Value{Kind: Int, Int: x}, 1 + n, nil
	case Bulk:
		l, n, err := line(b[1:])
		if err != nil {
			return Value{}, 0, err
		}
		x, perr := strconv.ParseInt(string(l), 10, 64)
		if perr != nil || x < -1 {
			return Value{}, 0, &ProtoError{"bad bulk length " + strconv.Quote(string(l))}
		}
		if x == -1 {
			return Value{Kind: Bulk, Null: true}, 1 + n, nil
		}
		need := 1 + n + int(x) + 2
		if len(b) < need {
			return Value{}, 0, ErrIncomplete
		}
		if b[need-2] != '\r' || b[need-1] != '\n' {
			return Value{}, 0, &ProtoError{"bulk not terminated by CRLF"}
		}
		return Value{Kind: Bulk, Str: append([]byte{}, b[1+n:1+n+int(x)]...)}, need, nil
	case Array:
		l, n, err := line(b[1:])
		if err != nil {
			return Value{}, 0, err
		}
		x, perr := strconv.ParseInt(string(l), 10, 64)
		if perr != nil || x < -1 {
			return Value{}, 0, &ProtoError{"bad array length " + strconv.Quote(string(l))}
		}
		if x == -1 {
			return Value{Kind: Array, Null: true}, 1 + n, nil
		}
		off := 1 + n
		arr := make([]Value, 0, min64(x, 1024))
		for i := int64(0); i < x; i++ {
			v, k, err := parse(b[off:], depth+1)
			if err != nil {
				return Value{}, 0, err
			}
			arr = append(arr, v)
			off += k
		}
		return Value{Kind: Array, Arr: arr}, off, nil
	default:
		return Value{}, 0, &ProtoError{fmt.Sprintf("bad type byte %q", b[0])}
	}
}

func min64(a, b int64) int64 {
	if a < b {
		return a
	}
	return b
}

func (v Value) Append(dst []byte) []byte {
	switch v.Kind {
	case Simple, Err:
		dst = append(dst, v.Kind)
		dst = append(dst, v.Str...)
		return append(dst, '\r', '\n')
	case Int:
		dst = append(dst, ':')
		dst = strconv.AppendInt(dst, v.Int, 10)
		return append(dst, '\r', '\n')
	case Bulk:
		if v.Null {
			return append(dst, "$-1\r\n"...)
		}
		dst = append(dst, '$')
		dst = strconv.AppendInt(dst, int64(len(v.Str)), 10)
		dst = append(dst, '\r', '\n')
		dst = append(dst, v.Str...)
		return append(dst, '\r', '\n')
	case Array:
		if v.Null {
			return append(dst, "*-1\r\n"...)
		}
		dst = append(dst, '*')
		dst = strconv.AppendInt(dst, int64(len(v.Arr)), 10)
		dst = append(dst, '\r', '\n')
		for _, e := range v.Arr {
			dst = e.Append(dst)
		}
		return dst
	}
	panic("resp2: bad kind")
}

func (v Value) Bytes() []byte { return v.Append(nil) }

func (v Value) Equal(o Value) bool { return bytes.Equal(v.Bytes(), o.Bytes()) }

func (v Value) String() string {
	switch v.Kind {
	case Simple:
		return "+" + string(v.Str)
	case Err:
		return "-" + string(v.Str)
	case Int:
		return ":" + strconv.FormatInt(v.Int, 10)
	case Bulk:
		if v.Null {
			return "$nil"
		}
		if len(v.Str) > 48 {
			return fmt.Sprintf("$%q..(%d)", v.Str[:48], len(v.Str))
		}
		return fmt.Sprintf("$%q", v.Str)
	case Array:
		if v.Null {
			return "*nil"
		}
		s := "["
		for i, e := range v.Arr {
			if i > 0 {
				s += " "
			}
			if i >= 12 {
				s += fmt.Sprintf("..(%d)", len(v.Arr))
				break
			}
			s += e.String()
		}
		return s + "]"
	}
	return "?"
}

func S(s string) Value      { return Value{Kind: Simple, Str: []byte(s)} }
func E(s string) Value      { return Value{Kind: Err, Str: []byte(s)} }
func I(i int64) Value       { return Value{Kind: Int, Int: i} }
func B(b []byte) Value      { return Value{Kind: Bulk, Str: b} }
func BS(s string) Value     { return Value{Kind: Bulk, Str: []byte(s)} }
func Nil() Value            { return Value{Kind: Bulk, Null: true} }
func A(vs ...Value) Value   { return Value{Kind: Array, Arr: append([]Value{}, vs...)} }
func NilArray() Value       { return Value{Kind: Array, Null: true} }
func (v Value) IsErr() bool { return v.Kind == Err }

// Cmd encodes a command as an array of bulk strings.
func Cmd(args ...[]byte) []byte {
	v := Value{Kind: Array}
	for _, a := range args {
		v.Arr = append(v.Arr, B(a))
	}
	return v.Bytes()
}

func CmdS(args ...string) []byte {
	v := Value{Kind: Array}
	for _, a := range args {
		v.Arr = append(v.Arr, BS(a))
	}
	return v.Bytes()
}

// Args returns the arguments of a command (array of bulk strings), or false.
func (v Value) Args() ([][]byte, bool) {
	if v.Kind != Array || v.Null || len(v.Arr) == 0 {
		return nil, false
	}
	out := make([][]byte, len(v.Arr))
	for i, e := range v.Arr {
		if e.Kind != Bulk || e.Null {
			return nil, false
		}
		out[i] = e.Str
	}
	return out, true
}

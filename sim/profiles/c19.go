package profiles

import (
	"fmt"
	"sort"
	"strconv"
	"strings"
	"testing"
	"time"

	"github.com/samaritan-proxy/samaritan/proc/redis/hotkey"

	"verif.local/sim/harness"
	"verif.local/sim/resp2"
	"verif.local/sim/simhook"
	"verif.local/sim/simrt"
	"verif.local/sim/world"
)

// C19 — hot keys: counters are exact for tracked keys and bounded in size.
type c19 struct{}

func init() { harness.Register(c19{}) }

type C19Scenario struct {
	harness.Meta
	Kind string `json:"kind"` // counter | collector | e2e
	// counter: a sequence of operations; key >= 0: Incr(key), -1: Latch, -2: Free
	Cap int   `json:"cap,omitempty"`
	Ops []int `json:"ops,omitempty"`
	// collector
	Counters int     `json:"counters,omitempty"`
	Writers  [][]int `json:"writers,omitempty"` // per writer task: sequence of (counter*1000 + key)
	Readers  int     `json:"readers,omitempty"`
	Periods  int     `json:"periods,omitempty"`
	// PhaseUs: the collector starts this many microseconds after the writers and readers (its tickers then fall at
	// other phases of the minute, e.g. a collection that begins just before a minute boundary)
	PhaseUs int64 `json:"phase_us,omitempty"`
	// WriteStopMs > 0: the writers stop after this much simulated time; the collector and the readers go on, so the
	// evictions that follow work on what the last non-empty collection left
	WriteStopMs int `json:"write_stop_ms,omitempty"`
	// EdgeAfter > 0: when a collection that began just before a minute boundary has made this many steps, something
	// else in the process is due exactly at the boundary (a timer within the run's slack), so the minute may roll over
	// in the middle of the collection instead of before or after it
	EdgeAfter int `json:"edge_after,omitempty"`
	// e2e
	R *RedisScenario `json:"redis,omitempty"`
}

func (s *C19Scenario) GetMeta() *harness.Meta {
	if s.R != nil {
		return &s.R.Meta
	}
	return &s.Meta
}

func (c19) ID() string              { return "C19" }
func (c19) Empty() harness.Scenario { return &C19Scenario{} }
func (c19) NontrivialRule() string {
	return "counter sequences are non-trivial when at least one eviction happened (more distinct keys than the capacity); collector runs when >= 2 collection periods saw accesses; end-to-end runs when a HOTKEY reply listed >= 1 key; distinct = distinct (scenario, execution-hash) pairs"
}
func (c19) Components() ([]string, []string) {
	return []string{"hotkey.Counter (frequency-list LFU: Incr, evict, Latch, Free)", "hotkey.Collector (collect, sorted insert, evictStale, tickers, HotKeys)", "redis.filter_hotkey + redis.handler.handleHotKey (end-to-end class)"},
		[]string{"reference counter model (prefix replay)", "simulated clock for the collector's tickers", "writer and reader tasks", "network/cluster/clients (end-to-end class)"}
}

func (p c19) Gen(r *simhook.Rand, tier string, idx int) harness.Scenario {
	switch r.Intn(5) {
	case 0, 1:
		sc := &C19Scenario{Meta: harness.GenMeta(r, 0), Kind: "counter"}
		sc.Class = "counter"
		sc.Cap = []int{1, 2, 3, 5, 8, 16, 50, 255}[r.Intn(8)]
		nkeys := 1 + r.Intn(40)
		n := 1 + r.Intn(160)
		if tier == "thorough" {
			n = 1 + r.Intn(400)
		}
		for i := 0; i < n; i++ {
			switch {
			case r.Chance(1, 40):
				sc.Ops = append(sc.Ops, -1)
			case r.Chance(1, 120):
				sc.Ops = append(sc.Ops, -2)
			default:
				// skewed frequencies
				k := r.Intn(nkeys)
				if r.Chance(1, 2) {
					k = r.Intn(1 + nkeys/4)
				}
				sc.Ops = append(sc.Ops, k)
			}
		}
		return sc
	case 2, 3:
		sc := &C19Scenario{Meta: harness.GenMeta(r, 0), Kind: "collector"}
		sc.Class = "collector"
		sc.Cap = []int{1, 2, 3, 5, 10, 50}[r.Intn(6)]
		sc.Counters = 2 + r.Intn(4)
		sc.Readers = 1 + r.Intn(2)
		sc.Periods = 1 + r.Intn(30)
		switch r.Intn(4) {
		case 0:
			sc.PhaseUs = int64(r.Intn(60000000))
		case 1, 2:
			// collections begin a moment before each minute boundary and may still be merging when it passes
			sc.PhaseUs = 10000000 - int64([]int{50, 100, 500, 1000, 3000}[r.Intn(5)])
			if sc.SlackMs == 0 {
				sc.SlackMs = 1
			}
			if sc.Periods < 8 {
				sc.Periods += 8
			}
			sc.EdgeAfter = 1 + r.Intn(160)
			if r.Chance(5, 6) {
				sc.WriteStopMs = 55000 + 60000*r.Intn(2)
				if sc.WriteStopMs > 60000 && sc.Periods < 16 {
					sc.Periods = 16
				}
			}
		}
		nkeys := 1 + r.Intn(30)
		wide := r.Chance(1, 10)
		if wide {
			// the largest capacity a collector can have, and more distinct keys per period than it may report
			sc.Cap = 255
			sc.Periods = 1 + r.Intn(3)
			nkeys = 280 + r.Intn(300)
		}
		for w := 0; w < 1+r.Intn(3); w++ {
			var seq []int
			n := 5 + r.Intn(200)
			if wide {
				n = 500 + r.Intn(600)
			}
			for i := 0; i < n; i++ {
				k := r.Intn(nkeys)
				if r.Chance(1, 2) && !wide {
					k = r.Intn(1 + nkeys/5)
				}
				seq = append(seq, r.Intn(sc.Counters)*1000+k)
			}
			sc.Writers = append(sc.Writers, seq)
		}
		return sc
	default:
		rs := &RedisScenario{Meta: harness.GenMeta(r, 0)}
		rs.Class = "e2e"
		rs.Env = world.RedisCfg{Masters: 1 + r.Intn(3)}
		busy := r.Chance(1, 2)
		if busy {
			// other users of the proxy's pooled buffers (the compression filter) work right next to the HOTKEY handler
			rs.Env.Compression = &world.Compression{Enable: true, Threshold: 16}
			rs.Class = "e2e-busy"
		}
		nkeys := 2 + r.Intn(70)
		// key names: short, or long ones that only differ after their first 126..300 bytes (a report must name the
		// keys that were accessed, whatever their length)
		pad := ""
		if r.Chance(1, 4) {
			pad = strings.Repeat("k", []int{126, 127, 128, 129, 200, 300}[r.Intn(6)])
		}
		name := func(k int) string { return fmt.Sprintf("hk%s%d", pad, k) }
		for ci := 0; ci < 1+r.Intn(3); ci++ {
			cs := ConnScript{Name: fmt.Sprintf("c%d", ci)}
			for i := 0; i < 20+r.Intn(120); i++ {
				k := r.Intn(nkeys)
				if r.Chance(2, 3) {
					k = r.Intn(1 + nkeys/6)
				}
				rq := world.Request{Args: world.Bins("GET", name(k))}
				switch r.Intn(12) {
				case 2, 3:
					if busy {
						rq = world.Request{Args: world.Bins("HOTKEY")}
					}
				case 4, 5, 6:
					if busy {
						rq = world.Request{Args: append(world.Bins("SET", name(k)), world.Bin(strings.Repeat(fmt.Sprintf("v%d.", i), 40+r.Intn(60))))}
					}
				case 7:
					if !busy {
						// a script without keys: its arguments are not keys
						rq = world.Request{Args: world.Bins("EVAL", "return ARGV[1]", "0", fmt.Sprintf("arg%d", r.Intn(6)))}
					}
				case 0:
					rq = world.Request{Args: world.Bins("HOTKEY"), Wait: true}
				case 1:
					rq.Gap = []int{2000, 10001, 12000, 61000}[r.Intn(4)]
					rq.Wait = true
				}
				cs.Reqs = append(cs.Reqs, rq)
			}
			cs.Reqs = append(cs.Reqs, world.Request{Args: world.Bins("HOTKEY"), Wait: true, Gap: 11000})
			rs.Conns = append(rs.Conns, cs)
		}
		rs.HorizonS = 1200
		return &C19Scenario{Kind: "e2e", R: rs}
	}
}

func (p c19) Run(t *testing.T, s harness.Scenario) harness.Outcome {
	sc := s.(*C19Scenario)
	simhook.DenseYields = true
	defer func() { simhook.DenseYields = false }()
	switch sc.Kind {
	case "counter":
		return p.runCounter(sc)
	case "collector":
		return p.runCollector(t, sc)
	}
	return p.runE2E(t, sc)
}

// contentAfter replays a prefix of the sequence on a fresh counter and latches it.
func contentAfter(cap int, ops []int) map[string]uint64 {
	c := hotkey.NewCounter(uint8(cap), nil)
	for _, op := range ops {
		switch op {
		case -1:
			c.Latch()
		case -2:
			c.Free()
		default:
			c.Incr(fmt.Sprintf("k%d", op))
		}
	}
	return c.Latch()
}

func (p c19) runCounter(sc *C19Scenario) harness.Outcome {
	probes := map[string]int{}
	var v *simrt.Violation
	prev := map[string]uint64{}
	evictions := 0
	for i, op := range sc.Ops {
		cur := contentAfter(sc.Cap, sc.Ops[:i+1])
		simrt.Progress.Add(1)
		probes["c19.prefixes"]++
		fail := func(clause, f string, a ...interface{}) {
			v = &simrt.Violation{Clause: clause, Detail: fmt.Sprintf("capacity %d, after operation %d (%s) of %v: ", sc.Cap, i, opName(op), opsHead(sc.Ops, i)) + fmt.Sprintf(f, a...) + fmt.Sprintf("; before: %v, after: %v", prev, cur)}
		}
		if len(cur) > sc.Cap {
			fail("counter-bounded-by-capacity", "%d keys are tracked", len(cur))
			break
		}
		switch op {
		case -1, -2:
			if len(cur) != 0 {
				fail("latch-resets", "the counter still tracks %d keys", len(cur))
			}
		default:
			k := fmt.Sprintf("k%d", op)
			if old, ok := prev[k]; ok {
				want := cloneCounts(prev)
				want[k] = old + 1
				if !sameCounts(want, cur) {
					fail("tracked-key-counts-accesses", "an access to the tracked key %s must only raise its count to %d", k, old+1)
				}
			} else if len(prev) < sc.Cap {
				want := cloneCounts(prev)
				want[k] = 1
				if !sameCounts(want, cur) {
					fail("new-key-admitted-with-count-one", "key %s should have been admitted with count 1 and nothing else changed", k)
				}
			} else {
				// full: exactly one key with the lowest count leaves, k enters with count 1
				evictions++
				var gone []string
				for pk := range prev {
					if _, ok := cur[pk]; !ok {
						gone = append(gone, pk)
					}
				}
				min := uint64(1 << 62)
				for _, c := range prev {
					if c < min {
						min = c
					}
				}
				switch {
				case cur[k] != 1:
					fail("new-key-admitted-with-count-one", "key %s has count %d after its admission", k, cur[k])
				case len(gone) != 1:
					fail("evicts-exactly-one-key", "%d keys disappeared: %v", len(gone), gone)
				case prev[gone[0]] != min:
					fail("evicts-a-lowest-count-key", "key %s with count %d was evicted although the lowest count is %d", gone[0], prev[gone[0]], min)
				default:
					want := cloneCounts(prev)
					delete(want, gone[0])
					want[k] = 1
					if !sameCounts(want, cur) {
						fail("tracked-key-counts-accesses", "counts of the remaining keys changed")
					}
				}
			}
		}
		if v != nil {
			break
		}
		prev = cur
	}
	h := simhook.HashString(fmt.Sprint(sc.Ops, sc.Cap))
	return harness.Outcome{Res: simrt.Result{Violation: v, Hash: h, Steps: probes["c19.prefixes"], Probes: probes}, Faults: map[string]int{}, Nontrivial: evictions > 0}
}

func opName(op int) string {
	switch op {
	case -1:
		return "Latch"
	case -2:
		return "Free"
	}
	return fmt.Sprintf("Incr k%d", op)
}

func opsHead(ops []int, i int) string {
	var parts []string
	lo := 0
	if i > 30 {
		lo = i - 30
		parts = append(parts, "...")
	}
	for _, op := range ops[lo : i+1] {
		parts = append(parts, opName(op))
	}
	return "[" + strings.Join(parts, ", ") + "]"
}

func cloneCounts(m map[string]uint64) map[string]uint64 {
	c := map[string]uint64{}
	for k, v := range m {
		c[k] = v
	}
	return c
}

func sameCounts(a, b map[string]uint64) bool {
	if len(a) != len(b) {
		return false
	}
	for k, v := range a {
		if b[k] != v {
			return false
		}
	}
	return true
}

// reportInvariants: what every HOTKEY report must satisfy.
func reportInvariants(names []string, values []int, cap int, accessed map[string]bool) string {
	if len(names) > cap {
		return fmt.Sprintf("the report lists %d keys, the collector's capacity is %d", len(names), cap)
	}
	seen := map[string]bool{}
	for i, n := range names {
		if seen[n] {
			return fmt.Sprintf("key %s is listed twice", n)
		}
		seen[n] = true
		if !accessed[n] {
			return fmt.Sprintf("key %s is listed but was never accessed", n)
		}
		if i > 0 && values[i] > values[i-1] {
			return fmt.Sprintf("the report is not ordered by non-increasing heat: %s(%d) comes after %s(%d)", n, values[i], names[i-1], values[i-1])
		}
	}
	return ""
}

func (p c19) runCollector(t *testing.T, sc *C19Scenario) harness.Outcome {
	var bad *simrt.Violation
	accessed := map[string]bool{}
	w := &taskWorld{}
	var col *hotkey.Collector
	var stop chan struct{}
	writersLeft := 0
	periodsWithAccess := 0
	reports := 0
	w.setup = func(tw *taskWorld) {
		col = hotkey.NewCollector(uint8(sc.Cap))
		stop = make(chan struct{})
		counters := make([]*hotkey.Counter, sc.Counters)
		for i := range counters {
			counters[i] = col.AllocCounter(fmt.Sprintf("backend-%d", i))
		}
		tw.Go("harness:collector-run", func() {
			if sc.PhaseUs > 0 {
				simhook.Sleep(time.Duration(sc.PhaseUs) * time.Microsecond)
			}
			col.Run(stop)
		})
		deadline := time.Duration(sc.Periods) * 10 * time.Second
		for wi, seq := range sc.Writers {
			seq := seq
			writersLeft++
			tw.Go(fmt.Sprintf("harness:writer%d", wi), func() {
				defer func() { writersLeft-- }()
				per := len(seq)/sc.Periods + 1
				begin := time.Now()
				for i, x := range seq {
					if sc.WriteStopMs > 0 && time.Since(begin) >= time.Duration(sc.WriteStopMs)*time.Millisecond {
						return
					}
					k := fmt.Sprintf("k%d", x%1000)
					accessed[k] = true
					counters[(x/1000)%len(counters)].Incr(k)
					if (i+1)%per == 0 {
						simhook.Sleep(10*time.Second + time.Duration(i%7)*time.Millisecond)
						periodsWithAccess++
					}
				}
			})
		}
		for ri := 0; ri < sc.Readers; ri++ {
			tw.Go(fmt.Sprintf("harness:reader%d", ri), func() {
				start := time.Now()
				for time.Since(start) < deadline+15*time.Second {
					keys := col.HotKeys()
					var names []string
					var vals []int
					for _, k := range keys {
						// the HOTKEY handler walks the slice without a lock: it can be preempted between elements
						simhook.Yield("reader#elem")
						names = append(names, k.Name)
						vals = append(vals, int(k.Counter.Value()))
					}
					reports++
					if d := reportInvariants(names, vals, sc.Cap, accessed); d != "" && bad == nil {
						bad = &simrt.Violation{Clause: "hotkey-report-invariants", Detail: fmt.Sprintf("collector capacity %d, %d per-backend counters, concurrent writers: %s; report: %v %v", sc.Cap, sc.Counters, d, names, vals)}
						return
					}
					simhook.Sleep(time.Duration(500+ri*377) * time.Millisecond)
				}
			})
		}
	}
	stopped := false
	edgeSteps := 0
	var edgeAt time.Time
	w.check = func(tw *taskWorld) *simrt.Violation {
		if bad != nil {
			return bad
		}
		if sc.EdgeAfter > 0 && len(tw.tasks) > 0 {
			now := time.Now()
			b := now.Truncate(time.Minute).Add(time.Minute)
			if !b.Equal(edgeAt) && b.Sub(now) <= 5*time.Millisecond {
				ct := tw.tasks[0] // the collector's task is the first one started
				inside := false
				for _, f := range []string{"collect#", "Insert#", "ReaptIncr#", "Latch#", "Value#"} {
					inside = inside || strings.Contains(ct.Site, f)
				}
				if ct.State != simhook.StDead && inside {
					edgeSteps++
					if edgeSteps >= sc.EdgeAfter {
						edgeAt, edgeSteps = b, 0
						tw.Go("harness:minute-edge", func() { simhook.Sleep(time.Until(b) + time.Microsecond) })
					}
				}
			} else if b.Sub(now) > 5*time.Millisecond {
				edgeSteps = 0
			}
		}
		// stop the collector once writers and readers are done
		alive := 0
		for _, t := range tw.tasks {
			if t.State != simhook.StDead {
				alive++
			}
		}
		if alive == 1 && !stopped {
			stopped = true
			close(stop)
		}
		return nil
	}
	w.final = func(tw *taskWorld) *simrt.Violation {
		if bad != nil {
			return bad
		}
		// a starving schedule may leave readers unfinished at the horizon: nothing in the property speaks of that
		return nil
	}
	w.horizon = time.Duration(sc.Periods+6) * 10 * time.Second * 3
	res := simrt.Run(t, w, sc.Options())
	return harness.Outcome{Res: res, Faults: map[string]int{}, Nontrivial: periodsWithAccess >= 2 && reports > 0}
}

// parseHotKeyText parses the HOTKEY reply ("Collect N keys in this period!" followed by "counter: V  keyname: K" lines).
func parseHotKeyText(s string) (names []string, vals []int, declared int, err error) {
	lines := strings.Split(s, "\n")
	if _, e := fmt.Sscanf(lines[0], "Collect %d keys in this period!", &declared); e != nil {
		return nil, nil, 0, fmt.Errorf("first line %q", lines[0])
	}
	for _, l := range lines[1:] {
		if !strings.HasPrefix(l, "counter: ") {
			return nil, nil, 0, fmt.Errorf("line %q", l)
		}
		rest := strings.TrimPrefix(l, "counter: ")
		i := strings.Index(rest, "  keyname: ")
		if i < 0 {
			return nil, nil, 0, fmt.Errorf("line %q", l)
		}
		v, e := strconv.Atoi(rest[:i])
		if e != nil {
			return nil, nil, 0, fmt.Errorf("line %q", l)
		}
		names = append(names, rest[i+len("  keyname: "):])
		vals = append(vals, v)
	}
	return
}

func (p c19) runE2E(t *testing.T, sc *C19Scenario) harness.Outcome {
	rs := sc.R
	w := newRedisWorld(rs)
	var bad *simrt.Violation
	listed := false
	w.step = func(w *redisWorld) *simrt.Violation {
		if bad != nil {
			return bad
		}
		for _, c := range w.env.Clients {
			if c.OnReply != nil {
				continue
			}
			c.OnReply = func(c *world.Client, s *world.Sent) {
				if bad != nil || !strings.EqualFold(string(c.Script[s.Idx].Args[0]), "HOTKEY") {
					return
				}
				if s.Reply.Kind != resp2.Bulk {
					bad = &simrt.Violation{Clause: "hotkey-report-invariants", Detail: "HOTKEY was answered " + s.Reply.String()}
					return
				}
				names, vals, declared, err := parseHotKeyText(string(s.Reply.Str))
				if err != nil {
					bad = &simrt.Violation{Clause: "hotkey-report-invariants", Detail: fmt.Sprintf("the HOTKEY text does not parse (%v): %q", err, trunc(s.Reply.Str, 200))}
					return
				}
				if declared != len(names) {
					bad = &simrt.Violation{Clause: "hotkey-report-invariants", Detail: fmt.Sprintf("the HOTKEY text announces %d keys and lists %d", declared, len(names))}
					return
				}
				accessed := map[string]bool{}
				for _, cl := range w.env.Clients {
					for _, sn := range cl.Sent {
						a := cl.Script[sn.Idx].Args
						if len(a) >= 2 {
							accessed[string(a[1])] = true
						}
					}
				}
				if len(names) > 0 {
					listed = true
				}
				if d := reportInvariants(names, vals, 50, accessed); d != "" {
					bad = &simrt.Violation{Clause: "hotkey-report-invariants", Detail: fmt.Sprintf("HOTKEY through the proxy: %s; report: %v %v", d, names, vals)}
				}
			}
		}
		return bad
	}
	out := runRedis(t, rs, w)
	out.Nontrivial = listed
	return out
}

func (p c19) Shrink(s harness.Scenario) []harness.Scenario {
	sc := s.(*C19Scenario)
	var out []harness.Scenario
	switch sc.Kind {
	case "counter":
		n := len(sc.Ops)
		if n > 1 {
			c := *sc
			c.Ops = append([]int(nil), sc.Ops[:n-1]...)
			out = append(out, &c)
			c2 := *sc
			c2.Ops = append([]int(nil), sc.Ops[n/2:]...)
			out = append(out, &c2)
			for i := 0; i < n && n <= 60; i++ {
				c3 := *sc
				c3.Ops = append(append([]int(nil), sc.Ops[:i]...), sc.Ops[i+1:]...)
				out = append(out, &c3)
			}
		}
	case "collector":
		for i := range sc.Writers {
			if len(sc.Writers) > 1 {
				c := *sc
				c.Writers = append(append([][]int(nil), sc.Writers[:i]...), sc.Writers[i+1:]...)
				out = append(out, &c)
			}
			if n := len(sc.Writers[i]); n > 2 {
				c := *sc
				c.Writers = append([][]int(nil), sc.Writers...)
				c.Writers[i] = sc.Writers[i][:n/2]
				out = append(out, &c)
			}
		}
		if sc.Periods > 1 {
			c := *sc
			c.Periods = sc.Periods / 2
			out = append(out, &c)
		}
		if sc.Readers > 1 {
			c := *sc
			c.Readers = 1
			out = append(out, &c)
		}
	default:
		for _, c := range shrinkRedis(sc.R) {
			out = append(out, &C19Scenario{Kind: "e2e", R: c.(*RedisScenario)})
		}
	}
	return out
}

var _ = sort.Strings

package profiles

import (
	"encoding/json"
	"fmt"
	"sort"
	"strings"
	"testing"
	"time"

	"github.com/samaritan-proxy/samaritan/config"
	"github.com/samaritan-proxy/samaritan/controller"
	"github.com/samaritan-proxy/samaritan/host"
	"github.com/samaritan-proxy/samaritan/pb/common"
	"github.com/samaritan-proxy/samaritan/pb/config/bootstrap"
	"github.com/samaritan-proxy/samaritan/pb/config/protocol"
	"github.com/samaritan-proxy/samaritan/pb/config/service"
	"github.com/samaritan-proxy/samaritan/proc"

	"verif.local/sim/harness"
	"verif.local/sim/simhook"
	"verif.local/sim/simrt"
	"verif.local/sim/world"
)

// C08 — running services converge to the configured services and endpoints.
type c08 struct{}

func init() { harness.Register(c08{}) }

// Update is one discovery update (or a bootstrap static service).
type Update struct {
	Kind    string `json:"kind"` // dep-add dep-remove config endpoints
	Svc     int    `json:"svc"`
	CfgID   int    `json:"cfg_id,omitempty"`  // config: distinguishes configurations (connect timeout in ms)
	Invalid bool   `json:"invalid,omitempty"` // config: fails Validate
	// Unbuildable: the configuration passes Validate but no processor can be built from it (the builder refuses it, as
	// for a protocol without a registered builder or a listener that cannot be set up); like Invalid it stands for "no
	// usable configuration yet" and is only generated as the first configuration of a service
	Unbuildable bool `json:"unbuildable,omitempty"`
	Added       []EP `json:"added,omitempty"`
	Removed     []EP `json:"removed,omitempty"`
}

type EP struct {
	Addr   int  `json:"addr"`
	Backup bool `json:"backup,omitempty"`
}

type C08Scenario struct {
	harness.Meta
	Static  []Update `json:"static,omitempty"` // bootstrap: kind=static uses Svc, CfgID, Added
	History []Update `json:"history"`
	// Concurrent: the three discovery streams (dependencies, configurations, endpoints) are delivered by three tasks at
	// the same time, each in its own order, as the three stream goroutines of the discovery client do. The order in
	// which the store applies updates of different streams is then a schedule; the reference is the store's own final
	// state (public JSON view), which the processors must equal after the drain.
	Concurrent bool `json:"concurrent,omitempty"`
	Tasks      int  `json:"tasks,omitempty"` // >1: updates of different streams are delivered by separate tasks (dependency / config / endpoint streams)
	// LateController: the controller's event loop only starts once the store cannot make progress without it
	// (event channel full) or has accepted the whole history
	LateController bool `json:"late_controller,omitempty"`
}

func (c08) ID() string              { return "C08" }
func (c08) Empty() harness.Scenario { return &C08Scenario{} }
func (c08) NontrivialRule() string {
	return "a history is non-trivial when it holds >= 4 updates and at least one service got both a configuration and an endpoint list; distinct = distinct (scenario, execution-hash) pairs"
}
func (c08) Components() ([]string, []string) {
	return []string{"config.Config (the three update handlers, event emission under the lock, 32-slot event channel; driven through the verif dynamic source)", "controller.Controller (event loop, processor table)", "proc.New / processor registry"},
		[]string{"discovery streams (updates delivered by harness tasks)", "processors (recording builder registered for an otherwise unused protocol)", "reference model: fold over the history"}
}

func svcName(i int) string { return fmt.Sprintf("dep-%d", i) }

func epAddr(i int) *common.Address {
	return &common.Address{Ip: fmt.Sprintf("10.3.0.%d", i+1), Port: 8000}
}

func mkEP(e EP) *service.Endpoint {
	t := service.Endpoint_MAIN
	if e.Backup {
		t = service.Endpoint_BACKUP
	}
	return &service.Endpoint{Address: epAddr(e.Addr), Type: t}
}

func mkCfg(u Update, svc int) *service.Config {
	ct := time.Duration(1+u.CfgID) * time.Millisecond
	it := time.Minute
	c := &service.Config{Listener: &service.Listener{Address: &common.Address{Ip: "127.0.0.1", Port: uint32(7000 + svc)}}, ConnectTimeout: &ct, IdleTimeout: &it, Protocol: protocol.MySQL}
	if u.Invalid {
		c.Listener = nil // fails Validate: listener is required
	}
	if u.Unbuildable {
		it = c08UnbuildableMark
	}
	return c
}

// c08UnbuildableMark: idle timeout that makes the recording builder refuse a configuration
const c08UnbuildableMark = 61 * time.Second

func genEPs(r *simhook.Rand, naddr, max int) []EP {
	var out []EP
	for i := 0; i < r.Intn(max+1); i++ {
		out = append(out, EP{Addr: r.Intn(naddr), Backup: r.Chance(1, 3)})
	}
	return out
}

func (p c08) Gen(r *simhook.Rand, tier string, idx int) harness.Scenario {
	sc := &C08Scenario{Meta: harness.GenMeta(r, 0)}
	nsvc := 1 + r.Intn(4)
	naddr := 1 + r.Intn(5)
	if r.Chance(1, 4) {
		for i := 0; i < 1+r.Intn(2); i++ {
			eps := genEPs(r, naddr, 3)
			if len(eps) == 0 {
				eps = []EP{{Addr: 0}}
			}
			sc.Static = append(sc.Static, Update{Kind: "static", Svc: 10 + i, CfgID: r.Intn(5), Added: eps})
		}
	}
	n := 1 + r.Intn(40)
	cfgSeen := map[int]bool{}
	for i := 0; i < n; i++ {
		u := Update{Svc: r.Intn(nsvc)}
		switch x := r.Intn(100); {
		case x < 18:
			u.Kind = "dep-add"
		case x < 26:
			u.Kind = "dep-remove"
			delete(cfgSeen, u.Svc)
		case x < 48:
			u.Kind = "config"
			u.CfgID = 1 + r.Intn(50)
			// an invalid configuration only as the first one of a service (later corrected by a valid one)
			if !cfgSeen[u.Svc] && r.Chance(1, 3) {
				u.Invalid = true
				if r.Chance(1, 3) {
					u.Invalid, u.Unbuildable = false, true
				}
			}
			cfgSeen[u.Svc] = true
		default:
			u.Kind = "endpoints"
			u.Added = genEPs(r, naddr, 3)
			u.Removed = genEPs(r, naddr, 2)
			if r.Chance(1, 6) && len(u.Added) > 0 {
				u.Removed = append(u.Removed, u.Added[0]) // the same address in both lists of one update
			}
		}
		if r.Chance(1, 15) {
			u.Svc = 7 // never a dependency: updates for unknown services are ignored
		}
		sc.History = append(sc.History, u)
	}
	if r.Chance(1, 2) {
		sc.Tasks = 3
	}
	if r.Chance(1, 4) {
		sc.Concurrent = true
		sc.Class = "concurrent-streams"
		for i := range sc.History {
			sc.History[i].Unbuildable = false
			sc.History[i].Invalid = false // what an invalid configuration means next to racing updates is not specified
		}
	}
	if r.Chance(1, 4) {
		// class "slow-controller": a long, order-sensitive history (the same endpoints added and removed again and
		// again) against a controller that is far behind
		sc.Class = "slow-controller"
		sc.LateController = true
		sc.History = []Update{{Kind: "dep-add", Svc: 0}, {Kind: "config", Svc: 0, CfgID: 1}, {Kind: "endpoints", Svc: 0, Added: []EP{{Addr: 0}}}}
		for i := 0; i < 30+r.Intn(60); i++ {
			a := 1 + r.Intn(3)
			if r.Chance(1, 2) {
				sc.History = append(sc.History, Update{Kind: "endpoints", Svc: 0, Added: []EP{{Addr: a}}})
			} else {
				sc.History = append(sc.History, Update{Kind: "endpoints", Svc: 0, Removed: []EP{{Addr: a}}})
			}
			if r.Chance(1, 10) {
				sc.History = append(sc.History, Update{Kind: "config", Svc: 0, CfgID: 2 + i})
			}
		}
	}
	return sc
}

// ---- recording processors ----

type recProc struct {
	name    string
	cfg     *service.Config
	hosts   map[string]host.Type
	started bool
	stopped bool
	reg     *recRegistry
}

type recRegistry struct {
	live  map[string][]*recProc // by service name, every processor ever built and not stopped
	built int
}

var curRegistry *recRegistry

type recBuilder struct{}

func (recBuilder) Build(params proc.BuildParams) (proc.Proc, error) {
	reg := curRegistry
	if reg == nil {
		return nil, fmt.Errorf("no recording registry installed")
	}
	if it := params.Cfg.GetIdleTimeout(); it != nil && *it == c08UnbuildableMark {
		return nil, fmt.Errorf("scripted: no processor can be built from this configuration")
	}
	p := &recProc{name: params.Name, cfg: params.Cfg, hosts: map[string]host.Type{}, reg: reg}
	for _, h := range params.Hosts {
		p.hosts[h.Addr] = h.Type
	}
	reg.built++
	return p, nil
}

func init() { proc.RegisterBuilder(protocol.MySQL, recBuilder{}) }

func (p *recProc) Name() string            { return p.name }
func (p *recProc) Address() string         { return "" }
func (p *recProc) Config() *service.Config { return p.cfg }
func (p *recProc) OnSvcHostAdd(hs []*host.Host) error {
	for _, h := range hs {
		p.hosts[h.Addr] = h.Type
	}
	return nil
}
func (p *recProc) OnSvcHostRemove(hs []*host.Host) error {
	for _, h := range hs {
		delete(p.hosts, h.Addr)
	}
	return nil
}
func (p *recProc) OnSvcAllHostReplace(hs []*host.Host) error {
	p.hosts = map[string]host.Type{}
	for _, h := range hs {
		p.hosts[h.Addr] = h.Type
	}
	return nil
}
func (p *recProc) OnSvcConfigUpdate(c *service.Config) error { p.cfg = c; return nil }
func (p *recProc) Start() error {
	p.started = true
	p.reg.live[p.name] = append(p.reg.live[p.name], p)
	return nil
}
func (p *recProc) StopListen() error { return nil }
func (p *recProc) Stop() error {
	p.stopped = true
	l := p.reg.live[p.name]
	for i, x := range l {
		if x == p {
			p.reg.live[p.name] = append(l[:i:i], l[i+1:]...)
		}
	}
	return nil
}

// ---- reference model: a fold over the history ----

type mSvc struct {
	cfg       *Update // latest configuration update (nil: none)
	known     bool    // has an endpoint list
	ambiguous bool    // only removals were seen for a list that did not exist: either reading is admitted
	unjudged  bool    // a service that had a valid configuration was sent an invalid one: not specified, not judged
	eps       map[int]bool
	epBackup  map[int]bool
}

func foldHistory(sc *C08Scenario) map[int]*mSvc {
	m := map[int]*mSvc{}
	for _, u := range sc.Static {
		s := &mSvc{cfg: &Update{CfgID: u.CfgID}, known: true, eps: map[int]bool{}, epBackup: map[int]bool{}}
		for _, e := range u.Added {
			s.eps[e.Addr] = true
			s.epBackup[e.Addr] = e.Backup
		}
		m[u.Svc] = s
	}
	for i := range sc.History {
		u := sc.History[i]
		s := m[u.Svc]
		switch u.Kind {
		case "dep-add":
			if s == nil {
				m[u.Svc] = &mSvc{eps: map[int]bool{}, epBackup: map[int]bool{}}
			}
		case "dep-remove":
			delete(m, u.Svc)
		case "config":
			if s != nil {
				if (u.Invalid || u.Unbuildable) && s.cfg != nil && !s.cfg.Invalid {
					s.unjudged = true
				}
				if u.Unbuildable {
					// no processor can exist for it: in the reference it counts like a configuration that is not valid
					cp := u
					cp.Invalid = true
					s.cfg = &cp
					continue
				}
				s.cfg = &sc.History[i]
			}
		case "endpoints":
			if s == nil || len(u.Added)+len(u.Removed) == 0 {
				continue
			}
			// one update: removals, then additions (an address in both lists is present afterwards)
			for _, e := range u.Removed {
				delete(s.eps, e.Addr)
			}
			for _, e := range u.Added {
				if !s.eps[e.Addr] {
					s.eps[e.Addr] = true
					s.epBackup[e.Addr] = e.Backup
				}
			}
			if len(u.Added) > 0 {
				s.known = true
				s.ambiguous = false
			} else if !s.known {
				s.ambiguous = true
			}
		}
	}
	return m
}

func (p c08) Run(t *testing.T, s harness.Scenario) harness.Outcome {
	sc := s.(*C08Scenario)
	reg := &recRegistry{live: map[string][]*recProc{}}
	var ctl *controller.Controller
	var cfgStore *config.Config
	var src *config.VerifSource
	w := &taskWorld{}
	var setupErr error
	ctlStarted := false
	name := world.UniqueName("c08x")
	delivered := 0
	w.setup = func(tw *taskWorld) {
		curRegistry = reg
		b := &bootstrap.Bootstrap{
			Instance:            &common.Instance{Id: name, Belong: "verif"},
			Admin:               &bootstrap.Admin{Bind: &common.Address{Ip: "127.0.0.1", Port: 12345}},
			DynamicSourceConfig: &bootstrap.ConfigSource{Endpoint: "sim:1"},
		}
		for _, u := range sc.Static {
			var eps []*service.Endpoint
			for _, e := range u.Added {
				eps = append(eps, mkEP(e))
			}
			b.StaticServices = append(b.StaticServices, &bootstrap.StaticService{Name: svcName(u.Svc), Config: mkCfg(u, u.Svc), Endpoints: eps})
		}
		// the store is created in a task: its constructor starts the dynamic source
		tw.Go("harness:config-new", func() {
			cfgStore, src, setupErr = config.VerifNewWithSource(b)
			if setupErr != nil {
				return
			}
			ctl, setupErr = controller.New(cfgStore.Subscribe())
			if setupErr != nil {
				return
			}
			if !sc.LateController {
				ctl.Start()
				ctlStarted = true
			}
			deliver := func(u Update) {
				switch u.Kind {
				case "dep-add":
					src.Dependency([]*service.Service{{Name: svcName(u.Svc)}}, nil)
				case "dep-remove":
					src.Dependency(nil, []*service.Service{{Name: svcName(u.Svc)}})
				case "config":
					src.SvcConfig(svcName(u.Svc), mkCfg(u, u.Svc))
				case "endpoints":
					var a, r []*service.Endpoint
					for _, e := range u.Added {
						a = append(a, mkEP(e))
					}
					for _, e := range u.Removed {
						r = append(r, mkEP(e))
					}
					src.SvcEndpoint(svcName(u.Svc), a, r)
				}
				delivered++
			}
			// the history is one sequence: it is delivered in order.  With Tasks > 1 consecutive updates are
			// handed to different tasks, but each waits for its predecessor, so that only the store's and the
			// controller's relative speed varies, not the history
			if sc.Concurrent {
				streams := map[string][]Update{}
				for _, u := range sc.History {
					k := u.Kind
					if k == "dep-remove" {
						k = "dep-add"
					}
					streams[k] = append(streams[k], u)
				}
				for _, k := range []string{"dep-add", "config", "endpoints"} {
					us := streams[k]
					tw.Go("harness:stream-"+k, func() {
						for _, u := range us {
							deliver(u)
						}
					})
				}
				return
			}
			for _, u := range sc.History {
				deliver(u)
			}
		})
	}
	w.check = func(tw *taskWorld) *simrt.Violation {
		if sc.LateController && !ctlStarted && ctl != nil && len(tw.rt.Parked()) == 0 {
			// nothing can run any more without the controller (or everything was accepted): start it now
			ctlStarted = true
			c := ctl
			tw.Go("harness:controller-start", func() { c.Start() })
		}
		return nil
	}
	judged := false
	w.done = func(tw *taskWorld) bool {
		return tw.allDead() && len(tw.rt.Parked()) == 0 && delivered == len(sc.History) && len(tw.rt.Events()) == 0
	}
	w.final = func(tw *taskWorld) *simrt.Violation {
		if setupErr != nil {
			return &simrt.Violation{Clause: "harness-build", Detail: setupErr.Error()}
		}
		if !tw.allDead() || delivered != len(sc.History) {
			return &simrt.Violation{Clause: "updates-are-processed", Detail: fmt.Sprintf("only %d of %d updates were accepted by the store within the horizon; tasks: %v", delivered, len(sc.History), tw.rt.Alive(true)), Sites: tw.blocked()}
		}
		judged = true
		want := foldHistory(sc)
		if sc.Concurrent {
			var err error
			if want, err = storeView(cfgStore); err != nil {
				return &simrt.Violation{Clause: "harness-build", Detail: "cannot read the store's JSON view: " + err.Error()}
			}
		}
		// every service of the model
		names := map[string]bool{}
		for i := range want {
			names[svcName(i)] = true
		}
		for n := range reg.live {
			names[n] = true
		}
		var keys []string
		for n := range names {
			keys = append(keys, n)
		}
		sort.Strings(keys)
		for _, n := range keys {
			var idx int
			fmt.Sscanf(n, "dep-%d", &idx)
			ms := want[idx]
			live := reg.live[n]
			if ms != nil && ms.unjudged {
				continue
			}
			expect := ms != nil && ms.cfg != nil && !ms.cfg.Invalid && ms.known
			if ms != nil && ms.cfg != nil && !ms.cfg.Invalid && ms.ambiguous && !ms.known {
				// removals for a list that never existed: a processor with an empty host set, or none
				if len(live) == 0 || (len(live) == 1 && len(live[0].hosts) == 0) {
					continue
				}
			}
			if len(live) > 1 {
				return &simrt.Violation{Clause: "one-processor-per-service", Detail: fmt.Sprintf("%d processors are running for service %s", len(live), n)}
			}
			if !expect {
				if len(live) != 0 {
					why := "it is not a dependency"
					if ms != nil {
						why = fmt.Sprintf("valid config=%v, endpoint list known=%v", ms.cfg != nil && !ms.cfg.Invalid, ms.known)
					}
					return &simrt.Violation{Clause: "no-processor-without-config-and-endpoints", Detail: fmt.Sprintf("a processor is running for service %s although %s; history: %s", n, why, describeHistory(sc))}
				}
				continue
			}
			if len(live) == 0 {
				return &simrt.Violation{Clause: "processor-for-configured-service", Detail: fmt.Sprintf("service %s has a valid configuration (cfg %d) and an endpoint list %v but no processor is running; history: %s", n, ms.cfg.CfgID, keysOf(ms.eps), describeHistory(sc))}
			}
			pr := live[0]
			if got := pr.cfg.GetConnectTimeout(); got == nil || *got != time.Duration(1+ms.cfg.CfgID)*time.Millisecond {
				return &simrt.Violation{Clause: "processor-has-latest-config", Detail: fmt.Sprintf("processor %s runs with configuration %v, the latest is cfg %d; history: %s", n, got, ms.cfg.CfgID, describeHistory(sc))}
			}
			var wantHosts, gotHosts []string
			for a := range ms.eps {
				ty := host.TypeMain
				if ms.epBackup[a] {
					ty = host.TypeBackup
				}
				wantHosts = append(wantHosts, fmt.Sprintf("10.3.0.%d:8000/%s", a+1, ty))
			}
			for a, ty := range pr.hosts {
				gotHosts = append(gotHosts, fmt.Sprintf("%s/%s", a, ty))
			}
			sort.Strings(wantHosts)
			sort.Strings(gotHosts)
			if strings.Join(wantHosts, ",") != strings.Join(gotHosts, ",") {
				return &simrt.Violation{Clause: "processor-has-latest-endpoints", Detail: fmt.Sprintf("processor %s has hosts %v, the endpoint set after the history is %v; history: %s", n, gotHosts, wantHosts, describeHistory(sc))}
			}
		}
		return nil
	}
	res := simrt.Run(t, &c08World{taskWorld: w, ctl: &ctl}, sc.Options())
	curRegistry = nil
	world.DropStats(name)
	for i := 0; i < 20; i++ {
		world.DropStats(svcName(i))
	}
	both := false
	for _, ms := range foldHistory(sc) {
		if ms.cfg != nil && ms.known {
			both = true
		}
	}
	return harness.Outcome{Res: res, Faults: map[string]int{}, Nontrivial: judged && len(sc.History) >= 4 && both}
}

// storeView reads the configuration store through its public JSON view (what the admin API serves).
func storeView(c *config.Config) (map[int]*mSvc, error) {
	b, err := json.Marshal(c)
	if err != nil {
		return nil, err
	}
	var v struct {
		Services map[string]struct {
			Name      string              `json:"name"`
			Config    *service.Config     `json:"config"`
			Endpoints []*service.Endpoint `json:"endpoints"`
		} `json:"services"`
	}
	if err := json.Unmarshal(b, &v); err != nil {
		return nil, err
	}
	out := map[int]*mSvc{}
	for name, sv := range v.Services {
		var idx int
		if _, err := fmt.Sscanf(name, "dep-%d", &idx); err != nil {
			continue // the harness's own static service
		}
		m := &mSvc{eps: map[int]bool{}, epBackup: map[int]bool{}, known: sv.Endpoints != nil}
		if sv.Config != nil {
			u := &Update{Invalid: sv.Config.Validate() != nil}
			if it := sv.Config.GetIdleTimeout(); it != nil && *it == c08UnbuildableMark {
				u.Invalid = true
			}
			if ct := sv.Config.GetConnectTimeout(); ct != nil {
				u.CfgID = int(*ct/time.Millisecond) - 1
			}
			m.cfg = u
		}
		for _, e := range sv.Endpoints {
			var a int
			fmt.Sscanf(e.Address.Ip, "10.3.0.%d", &a)
			m.eps[a-1] = true
			m.epBackup[a-1] = e.Type == service.Endpoint_BACKUP
		}
		out[idx] = m
	}
	return out, nil
}

type c08World struct {
	*taskWorld
	ctl **controller.Controller
}

func (w *c08World) Teardown() {
	if *w.ctl != nil {
		c := *w.ctl
		w.rt.Go("harness:controller-stop", func() { c.Stop() })
	}
}

func keysOf(m map[int]bool) []int {
	var out []int
	for k := range m {
		out = append(out, k)
	}
	sort.Ints(out)
	return out
}

func describeHistory(sc *C08Scenario) string {
	var parts []string
	for _, u := range sc.Static {
		parts = append(parts, fmt.Sprintf("static(%d cfg%d +%v)", u.Svc, u.CfgID, u.Added))
	}
	for _, u := range sc.History {
		switch u.Kind {
		case "config":
			inv := ""
			if u.Invalid {
				inv = " INVALID"
			}
			if u.Unbuildable {
				inv = " UNBUILDABLE"
			}
			parts = append(parts, fmt.Sprintf("config(%d cfg%d%s)", u.Svc, u.CfgID, inv))
		case "endpoints":
			parts = append(parts, fmt.Sprintf("endpoints(%d +%v -%v)", u.Svc, u.Added, u.Removed))
		default:
			parts = append(parts, fmt.Sprintf("%s(%d)", u.Kind, u.Svc))
		}
	}
	s := strings.Join(parts, " ")
	if len(s) > 1500 {
		s = s[:1500] + "..."
	}
	return s
}

func (p c08) Shrink(s harness.Scenario) []harness.Scenario {
	sc := s.(*C08Scenario)
	var out []harness.Scenario
	cp := func() *C08Scenario {
		c := *sc
		c.History = append([]Update(nil), sc.History...)
		c.Static = append([]Update(nil), sc.Static...)
		return &c
	}
	if n := len(sc.History); n > 1 {
		c := cp()
		c.History = c.History[:n/2]
		out = append(out, c)
		c = cp()
		c.History = c.History[n/2:]
		out = append(out, c)
	}
	for i := range sc.History {
		c := cp()
		c.History = append(c.History[:i:i], c.History[i+1:]...)
		out = append(out, c)
	}
	for i := range sc.Static {
		c := cp()
		c.Static = append(c.Static[:i:i], c.Static[i+1:]...)
		out = append(out, c)
	}
	for i, u := range sc.History {
		if len(u.Added) > 1 {
			c := cp()
			c.History[i].Added = u.Added[:len(u.Added)-1]
			out = append(out, c)
		}
		if len(u.Removed) > 0 {
			c := cp()
			c.History[i].Removed = u.Removed[:len(u.Removed)-1]
			out = append(out, c)
		}
	}
	if sc.Strategy != "uniform" {
		c := cp()
		c.Strategy = "uniform"
		out = append(out, c)
	}
	return out
}

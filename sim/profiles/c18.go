package profiles

import (
	"bytes"
	"fmt"
	"sort"
	"strconv"
	"strings"
	"testing"

	"verif.local/sim/cluster"
	"verif.local/sim/harness"
	"verif.local/sim/refredis"
	"verif.local/sim/resp2"
	"verif.local/sim/simhook"
	"verif.local/sim/world"
)

// C18 — SCAN through the proxy visits every node once and terminates.
type c18 struct{}

func init() { harness.Register(c18{}) }

type NodeScan struct {
	Keys    []string `json:"keys"`
	Pages   [][]int  `json:"pages"`   // indices into Keys returned by each call, in call order
	Cursors []uint64 `json:"cursors"` // cursor returned by call i (the last one is 0)
}

type IterSpec struct {
	Match string `json:"match,omitempty"`
	Count int    `json:"count,omitempty"`
	Lower bool   `json:"lower,omitempty"`
}

type C18Scenario struct {
	RedisScenario
	Nodes []NodeScan `json:"nodes"`
	Iters []IterSpec `json:"iters"`
	Wild  []string   `json:"wild,omitempty"` // arbitrary client-supplied cursors
}

func (c18) ID() string              { return "C18" }
func (c18) Empty() harness.Scenario { return &C18Scenario{} }
func (c18) NontrivialRule() string {
	return "an iteration is non-trivial when it spans >= 2 nodes or a node needs >= 2 pages; distinct = distinct (scenario, execution-hash) pairs"
}
func (c18) Components() ([]string, []string) {
	return []string{"redis.handler.handleScan", "redis.request.scanRequest (cursor compose/parse, reply rewriting)", "redis.upstream.Hosts", "host.Set (sorted healthy cache)", "redis.session", "redis.codec"},
		[]string{"network (simnet)", "Redis nodes with scripted SCAN pages and arbitrary 48-bit cursors (cluster.ScanPages)", "adaptive iterating client"}
}

func (p c18) Gen(r *simhook.Rand, tier string, idx int) harness.Scenario {
	sc := &C18Scenario{}
	sc.Meta = harness.GenMeta(r, 0)
	n := 1 + r.Intn(6)
	sc.Env = world.RedisCfg{Masters: n, SeedMasters: true}
	if r.Chance(1, 4) {
		// standby members of type backup next to the main ones: not part of the node set a SCAN walks
		sc.Env.BackupHosts = 1 + r.Intn(2)
	}
	if r.Chance(1, 3) {
		sc.Env.FragNum, sc.Env.FragDen = 1, 2
	}
	edge := []uint64{1, 2, 255, 256, 65535, 1<<32 - 1, 1 << 32, 1<<47 - 1, 1 << 47, 1<<48 - 1, 1<<48 - 2, 99999999999999}
	for i := 0; i < n; i++ {
		var ns NodeScan
		nk := 0
		switch r.Intn(4) {
		case 0:
			nk = 0
		case 1:
			nk = 1 + r.Intn(5)
		default:
			nk = r.Intn(200)
		}
		for k := 0; k < nk; k++ {
			ns.Keys = append(ns.Keys, fmt.Sprintf("n%d:%s%d", i, []string{"a", "b", "user:", "x{t}"}[r.Intn(4)], k))
		}
		// pages: a partition of the keys into calls (some empty pages, as real SCAN produces), keys may repeat
		left := r.Perm(nk)
		for len(left) > 0 || len(ns.Pages) == 0 {
			sz := r.Intn(12)
			if r.Chance(1, 5) {
				sz = 0
			}
			if sz > len(left) {
				sz = len(left)
			}
			page := append([]int(nil), left[:sz]...)
			left = left[sz:]
			if r.Chance(1, 10) && nk > 0 {
				page = append(page, r.Intn(nk)) // SCAN may return an element several times
			}
			ns.Pages = append(ns.Pages, page)
			if len(ns.Pages) > 80 {
				ns.Pages[len(ns.Pages)-1] = append(ns.Pages[len(ns.Pages)-1], left...)
				left = nil
			}
		}
		used := map[uint64]bool{0: true}
		for c := 0; c < len(ns.Pages)-1; c++ {
			var cur uint64
			for {
				if r.Chance(1, 3) {
					cur = edge[r.Intn(len(edge))]
				} else {
					cur = r.Uint64() & (1<<48 - 1)
				}
				if !used[cur] {
					break
				}
			}
			used[cur] = true
			ns.Cursors = append(ns.Cursors, cur)
		}
		ns.Cursors = append(ns.Cursors, 0)
		sc.Nodes = append(sc.Nodes, ns)
	}
	for i := 0; i < 1+r.Intn(3); i++ {
		it := IterSpec{Lower: r.Chance(1, 3)}
		switch r.Intn(4) {
		case 0:
			it.Match = []string{"*", "n0:*", "*user:*", "n?:a*", "*[13579]", "nomatch*", "*{t}*"}[r.Intn(7)]
		case 1:
			it.Count = []int{1, 2, 10, 1000, 100000}[r.Intn(5)]
		case 2:
			it.Match = "*"
			it.Count = 1 + r.Intn(50)
		}
		sc.Iters = append(sc.Iters, it)
	}
	wild := []string{"281474976710656", "1970324836974592", "9223372036854775807", "9223372036854775808", "18446744073709551615", "-1", "abc", "", "0x10", "1e3", "00", "+5",
		fmt.Sprint(uint64(n) << 48), fmt.Sprint(uint64(n)<<48 | 77), fmt.Sprint(uint64(65535) << 48), fmt.Sprint(uint64(32767)<<48 | 5), "281474976710655", "12345"}
	for i := 0; i < r.Intn(4); i++ {
		sc.Wild = append(sc.Wild, wild[r.Intn(len(wild))])
	}
	return sc
}

type scanIter struct {
	spec    IterSpec
	calls   int
	keys    map[string]int
	done    bool
	cursors []string
}

func (p c18) Run(t *testing.T, s harness.Scenario) harness.Outcome {
	sc := s.(*C18Scenario)
	// one adaptive client per iteration, plus one for wild cursors
	sc.Conns = nil
	for i := range sc.Iters {
		sc.Conns = append(sc.Conns, ConnScript{Name: fmt.Sprintf("it%d", i), Reqs: []world.Request{scanReq(sc.Iters[i], "0")}})
	}
	if len(sc.Wild) > 0 {
		cs := ConnScript{Name: "wild"}
		for _, c := range sc.Wild {
			cs.Reqs = append(cs.Reqs, scanReq(IterSpec{}, c))
		}
		sc.Conns = append(sc.Conns, cs)
	}
	w := newRedisWorld(&sc.RedisScenario)
	var bad *simrtViolation
	installed := false
	iters := map[string]*scanIter{}
	totalPages := 0
	for _, ns := range sc.Nodes {
		totalPages += len(ns.Pages)
	}
	budget := totalPages + len(sc.Nodes) + 1
	w.step = func(w *redisWorld) *simrtViolation {
		if bad != nil {
			return bad
		}
		if !installed && w.env.Started {
			installed = true
			for i, n := range w.env.Cluster.Nodes {
				if i >= len(sc.Nodes) {
					break
				}
				ns := sc.Nodes[i]
				for _, k := range ns.Keys {
					n.Store.SetString(k, []byte("v"))
				}
				n.ScanPages = func(n *cluster.Node, cursor uint64, match []byte, count int64) (uint64, []string) {
					call := -1
					if cursor == 0 {
						call = 0
					} else {
						for j, c := range ns.Cursors {
							if c == cursor && j+1 < len(ns.Pages) {
								call = j + 1
							}
						}
					}
					if call < 0 {
						return 0, nil // unknown cursor: an iteration that finds nothing
					}
					var keys []string
					for _, ki := range ns.Pages[call] {
						keys = append(keys, ns.Keys[ki])
					}
					return ns.Cursors[call], keys
				}
			}
		}
		for _, c := range w.env.Clients {
			if c.OnReply != nil {
				continue
			}
			if c.Name == "wild" {
				c.OnReply = func(c *world.Client, s *world.Sent) {}
				continue
			}
			var idx int
			fmt.Sscanf(c.Name, "it%d", &idx)
			it := &scanIter{spec: sc.Iters[idx], keys: map[string]int{}}
			iters[c.Name] = it
			c.OnReply = func(c *world.Client, s *world.Sent) {
				if bad != nil || it.done {
					return
				}
				it.calls++
				v := s.Reply
				if v.Kind != resp2.Array || len(v.Arr) != 2 || v.Arr[0].Kind != resp2.Bulk || v.Arr[1].Kind != resp2.Array {
					bad = &simrtViolation{Clause: "scan-reply-shape", Detail: fmt.Sprintf("iteration %s call %d (cursor %s) got %s", c.Name, it.calls, it.lastCursor(), v.String())}
					return
				}
				for _, k := range v.Arr[1].Arr {
					it.keys[string(k.Str)]++
				}
				next := string(v.Arr[0].Str)
				it.cursors = append(it.cursors, next)
				if next == "0" {
					it.done = true
					return
				}
				if it.calls > budget {
					bad = &simrtViolation{Clause: "scan-terminates", Detail: fmt.Sprintf("iteration %s has not reached cursor 0 after %d calls; the nodes need %d pages in total over %d nodes; cursors seen: %v", c.Name, it.calls, totalPages, len(sc.Nodes), tail(it.cursors, 8))}
					return
				}
				c.Script = append(c.Script, scanReq(it.spec, next))
			}
		}
		return bad
	}
	w.fin = func(w *redisWorld) *simrtViolation {
		if bad != nil {
			return bad
		}
		cl := w.env.Cluster
		existing := map[string]bool{}
		for _, ns := range sc.Nodes {
			for _, k := range ns.Keys {
				existing[k] = true
			}
		}
		for name, it := range iters {
			c := w.clientByName(name)
			if c == nil || !it.done {
				if c != nil && (c.EOF || c.Reset) {
					return &simrtViolation{Clause: "scan-terminates", Detail: fmt.Sprintf("iteration %s: the proxy closed the connection after %d calls", name, it.calls)}
				}
				continue // unanswered calls are the common liveness oracle's business
			}
			for k := range it.keys {
				if !existing[k] {
					return &simrtViolation{Clause: "scan-no-phantom-key", Detail: fmt.Sprintf("iteration %s returned key %q which is stored nowhere", name, k)}
				}
			}
			for k := range existing {
				if it.spec.Match != "" && !refredis.Match([]byte(it.spec.Match), []byte(k)) {
					continue
				}
				if it.keys[k] == 0 {
					return &simrtViolation{Clause: "scan-covers-all-keys", Detail: fmt.Sprintf("iteration %s (MATCH %q COUNT %d) reached cursor 0 after %d calls without returning key %q; cursors: %v", name, it.spec.Match, it.spec.Count, it.calls, k, tail(it.cursors, 10))}
				}
			}
			if it.calls > budget {
				return &simrtViolation{Clause: "scan-terminates", Detail: fmt.Sprintf("iteration %s needed %d calls, budget %d", name, it.calls, budget)}
			}
		}
		// node side: visited in host-list order, each node's cursor chain followed exactly, MATCH/COUNT relayed unchanged
		type seen struct {
			node   int
			cursor string
			args   [][]byte
		}
		perConn := map[string][]seen{}
		for _, le := range cl.Log {
			if !strings.EqualFold(string(le.Args[0]), "scan") {
				continue
			}
			// attribute by MATCH/COUNT signature is ambiguous; the proxy uses one backend connection per node, so order per node is global
			perConn[fmt.Sprint(le.Node)] = append(perConn[fmt.Sprint(le.Node)], seen{le.Node, string(le.Args[1]), le.Args})
		}
		for name, it := range iters {
			if !it.done || len(iters) != 1 || len(sc.Wild) > 0 {
				continue // exact per-node chains are checked when a single iteration ran alone
			}
			// expected chain
			var want []seen
			for ni, ns := range sc.Nodes {
				cur := "0"
				for call := 0; call < len(ns.Pages); call++ {
					want = append(want, seen{node: ni, cursor: cur})
					cur = strconv.FormatUint(ns.Cursors[call], 10)
				}
			}
			var got []seen
			for _, le := range cl.Log {
				if strings.EqualFold(string(le.Args[0]), "scan") {
					got = append(got, seen{le.Node, string(le.Args[1]), le.Args})
				}
			}
			if len(got) != len(want) {
				return &simrtViolation{Clause: "scan-node-order-and-cursors", Detail: fmt.Sprintf("iteration %s: the nodes received %d SCAN calls, their page chains call for %d", name, len(got), len(want))}
			}
			for i := range want {
				if got[i].node != want[i].node || got[i].cursor != want[i].cursor {
					return &simrtViolation{Clause: "scan-node-order-and-cursors", Detail: fmt.Sprintf("iteration %s: backend call %d went to node %d with cursor %s; expected node %d with cursor %s (nodes in host-list order, each node's own cursors fed back unchanged)", name, i, got[i].node, got[i].cursor, want[i].node, want[i].cursor)}
				}
				// MATCH / COUNT relayed unchanged
				wantArgs := world.BinsToBytes(scanReq(it.spec, "x").Args)[2:]
				if !bytes.Equal(bytes.Join(got[i].args[2:], []byte{0}), bytes.Join(wantArgs, []byte{0})) {
					return &simrtViolation{Clause: "scan-options-relayed", Detail: fmt.Sprintf("iteration %s: node %d received options %q, client sent %q", name, got[i].node, bytes.Join(got[i].args[2:], []byte(" ")), bytes.Join(wantArgs, []byte(" ")))}
				}
			}
		}
		// arbitrary client cursors get a reply or an error (the common oracle already demands exactly one reply each);
		// a cursor whose node index is past the last node yields the terminating reply
		if c := w.clientByName("wild"); c != nil {
			for _, sn := range c.Sent {
				if !sn.Answered {
					continue
				}
				cur := string(c.Script[sn.Idx].Args[1])
				u, err := strconv.ParseUint(cur, 10, 64)
				if err == nil && u < 1<<63 && int(u>>48) >= len(sc.Nodes) {
					v := sn.Reply
					if !(v.Kind == resp2.Array && len(v.Arr) == 2 && string(v.Arr[0].Str) == "0" && v.Arr[1].Kind == resp2.Array && len(v.Arr[1].Arr) == 0) {
						return &simrtViolation{Clause: "scan-past-last-node-terminates", Detail: fmt.Sprintf("SCAN %s (node index %d of %d nodes) got %s instead of the terminating reply", cur, u>>48, len(sc.Nodes), v.String())}
					}
				}
			}
		}
		return nil
	}
	out := runRedis(t, &sc.RedisScenario, w)
	out.Nontrivial = len(sc.Nodes) >= 2 || totalPages > len(sc.Nodes)
	sc.Conns = nil
	return out
}

func (it *scanIter) lastCursor() string {
	if len(it.cursors) == 0 {
		return "0"
	}
	return it.cursors[len(it.cursors)-1]
}

func tail(s []string, n int) []string {
	if len(s) > n {
		return s[len(s)-n:]
	}
	return s
}

func scanReq(it IterSpec, cursor string) world.Request {
	name := "SCAN"
	if it.Lower {
		name = "scan"
	}
	a := world.Bins(name, cursor)
	if it.Match != "" {
		a = append(a, world.Bins("MATCH", it.Match)...)
	}
	if it.Count > 0 {
		a = append(a, world.Bins("COUNT", strconv.Itoa(it.Count))...)
	}
	return world.Request{Args: a, Wait: true}
}

func (p c18) Shrink(s harness.Scenario) []harness.Scenario {
	sc := s.(*C18Scenario)
	var out []harness.Scenario
	mk := func(f func(c *C18Scenario) bool) {
		c := &C18Scenario{RedisScenario: *cloneRedis(&sc.RedisScenario), Iters: append([]IterSpec(nil), sc.Iters...), Wild: append([]string(nil), sc.Wild...)}
		for _, n := range sc.Nodes {
			c.Nodes = append(c.Nodes, NodeScan{Keys: append([]string(nil), n.Keys...), Pages: append([][]int(nil), n.Pages...), Cursors: append([]uint64(nil), n.Cursors...)})
		}
		c.Conns = nil
		if f(c) {
			out = append(out, c)
		}
	}
	if len(sc.Iters) > 1 {
		for i := range sc.Iters {
			i := i
			mk(func(c *C18Scenario) bool { c.Iters = append(c.Iters[:i:i], c.Iters[i+1:]...); return true })
		}
	}
	if len(sc.Wild) > 0 {
		mk(func(c *C18Scenario) bool { c.Wild = nil; return true })
		for i := range sc.Wild {
			i := i
			mk(func(c *C18Scenario) bool {
				c.Wild = []string{sc.Wild[i]}
				c.Iters = nil
				return len(sc.Wild) > 1 || len(sc.Iters) > 0
			})
		}
	}
	if len(sc.Nodes) > 1 {
		mk(func(c *C18Scenario) bool { c.Nodes = c.Nodes[:len(c.Nodes)-1]; c.Env.Masters--; return true })
	}
	for i := range sc.Nodes {
		i := i
		if len(sc.Nodes[i].Pages) > 1 {
			// merge the last two pages
			mk(func(c *C18Scenario) bool {
				n := &c.Nodes[i]
				l := len(n.Pages)
				n.Pages[l-2] = append(append([]int(nil), n.Pages[l-2]...), n.Pages[l-1]...)
				n.Pages = n.Pages[:l-1]
				n.Cursors = append(n.Cursors[:l-2:l-2], 0)
				return true
			})
		}
	}
	for i := range sc.Iters {
		i := i
		if sc.Iters[i].Match != "" || sc.Iters[i].Count != 0 {
			mk(func(c *C18Scenario) bool { c.Iters[i].Match, c.Iters[i].Count = "", 0; return true })
		}
	}
	if sc.Env.FragNum > 0 {
		mk(func(c *C18Scenario) bool { c.Env.FragNum = 0; return true })
	}
	if sc.Strategy != "uniform" {
		mk(func(c *C18Scenario) bool { c.Strategy = "uniform"; return true })
	}
	return out
}

var _ = sort.Strings

package profiles

import (
	"time"

	"verif.local/sim/simhook"
	"verif.local/sim/simrt"
)

// taskWorld runs harness tasks that call straight into the code under test (no network): the run is over
// when every task has returned or, past the horizon, when nothing can run any more.
type taskWorld struct {
	rt       *simhook.Runtime
	setup    func(w *taskWorld)
	check    func(w *taskWorld) *simrt.Violation
	final    func(w *taskWorld) *simrt.Violation
	done     func(w *taskWorld) bool
	start    time.Time
	horizon  time.Duration
	tasks    []*simhook.Task
	progress time.Time
	lastDead int
}

func (w *taskWorld) Go(role string, f func()) *simhook.Task {
	t := w.rt.Go(role, f)
	w.tasks = append(w.tasks, t)
	return t
}

func (w *taskWorld) Setup(rt *simhook.Runtime) {
	w.rt = rt
	w.start = time.Now()
	w.progress = w.start
	if w.horizon == 0 {
		w.horizon = defaultHorizon
	}
	w.setup(w)
}

func (w *taskWorld) Check() *simrt.Violation {
	dead := 0
	for _, t := range w.tasks {
		if t.State == simhook.StDead {
			dead++
		}
	}
	if dead != w.lastDead {
		w.lastDead = dead
		w.progress = time.Now()
	}
	if w.check != nil {
		return w.check(w)
	}
	return nil
}

func (w *taskWorld) allDead() bool {
	for _, t := range w.tasks {
		if t.State != simhook.StDead {
			return false
		}
	}
	return true
}

func (w *taskWorld) Done() bool {
	if w.done != nil {
		return w.done(w)
	}
	return w.allDead()
}

func (w *taskWorld) Deadline() time.Time { return w.progress.Add(w.horizon) }
func (w *taskWorld) Draining() bool      { return false }

func (w *taskWorld) Final() *simrt.Violation {
	if w.final != nil {
		return w.final(w)
	}
	return nil
}

// blocked lists the harness tasks that have not returned, with the site they are blocked at.
func (w *taskWorld) blocked() []string {
	var out []string
	for _, t := range w.tasks {
		if t.State != simhook.StDead {
			out = append(out, t.Role+"@"+t.Site)
		}
	}
	return out
}

package profiles

import (
	"fmt"
	"sort"
	"strings"
	"testing"
	"time"

	"github.com/samaritan-proxy/samaritan/host"

	"verif.local/sim/harness"
	"verif.local/sim/simhook"
	"verif.local/sim/simnet"
	"verif.local/sim/simrt"
	"verif.local/sim/world"
)

// StreamSpec: what one side of a relayed connection sends.
type StreamSpec struct {
	Len     int    `json:"len"`
	Chunks  []int  `json:"chunks,omitempty"`   // chunk sizes (cyclic); empty: one chunk
	GapMs   []int  `json:"gap_ms,omitempty"`   // pause before chunk i (cyclic, 0 = none)
	Finish  string `json:"finish,omitempty"`   // closewrite (default) | close | none
	WaitEOF bool   `json:"wait_eof,omitempty"` // finish only after the peer's EOF was seen
}

type TCPConn struct {
	Name    string     `json:"name"`
	C2S     StreamSpec `json:"c2s"`
	S2C     StreamSpec `json:"s2c"`
	AfterMs int        `json:"after_ms,omitempty"` // connect this long after the listener is up
	After   int        `json:"after_steps,omitempty"`
}

type TCPFault struct {
	Kind     string `json:"kind"` // host-add host-remove host-replace backend-down backend-up probe-fail probe-ok stop drain
	Node     int    `json:"node,omitempty"`
	Nodes    []int  `json:"nodes,omitempty"`
	After    int    `json:"after_steps,omitempty"` // steps after the first client connected
	AtMs     int    `json:"at_ms,omitempty"`
	AsBackup bool   `json:"as_backup,omitempty"`
	// Extra (host-remove): the removal call lists a second entry after the member: "dup" the same endpoint again,
	// "unknown" an endpoint that was never a member
	Extra string `json:"extra,omitempty"`
	// ForMs (receiver-pause): for how long the client of connection Node does not read what the proxy sends it
	ForMs int `json:"for_ms,omitempty"`
	// OtherType (host-add): the endpoint is announced with the type it does not have at the moment (main <-> backup)
	OtherType  bool   `json:"other_type,omitempty"`
	AfterStart int    `json:"after_start,omitempty"` // >= 1: AfterStart-1 steps after Start() returned
	Site       string `json:"site,omitempty"`        // fire when a task is parked at a site containing this text (after the other trigger is due)
}

type TCPScenario struct {
	harness.Meta
	Env      world.TCPCfg `json:"env"`
	Conns    []TCPConn    `json:"conns"`
	Faults   []TCPFault   `json:"faults,omitempty"`
	HorizonS int          `json:"horizon_s,omitempty"`
	EndStop  bool         `json:"end_stop,omitempty"`
	// Headerless: streams carry no identifying header (so a direction can be completely empty); only valid with
	// exactly one connection and no health checker
	Headerless bool `json:"headerless,omitempty"`
	// RandSeq: values handed to the load balancer's random source, in order (cyclic); empty: the default source
	RandSeq []int `json:"rand_seq,omitempty"`
}

func streamKey(header string) uint64 { return simhook.HashString("stream:" + header) }

func streamByte(key uint64, i int) byte {
	return byte(simhook.Mix(key+uint64(i)*0x9E3779B97F4A7C15) >> 17)
}

// peer is one application end of a relayed connection (a client, or a backend's side of a connection).
type peer struct {
	w           *tcpWorld
	name        string
	end         *simnet.End
	header      string
	spec        StreamSpec
	key         uint64
	total       int // header + body
	sent        int
	chunkI      int
	doneSending bool
	finished    bool

	peerHeader    string
	hdrBuf        []byte
	peerKey       uint64
	recvN         int // body bytes verified
	eof, reset    bool
	bad           string
	connectedStep int64
	connectedAt   time.Time
	evSeq         int
	other         *peer // the peer this one turned out to be connected to
}

func (p *peer) outByte(i int) byte {
	if i < len(p.header) {
		return p.header[i]
	}
	return streamByte(p.key, i-len(p.header))
}

func (p *peer) start() {
	p.key = streamKey(p.header)
	if p.w.sc.Headerless {
		p.key = streamKey("C-headerless")
	}
	p.total = len(p.header) + p.spec.Len
	p.end.OnData = func(e *simnet.End) { p.onData(e.Take()) }
	p.end.OnEOF = func(e *simnet.End) { p.onEOF() }
	p.end.OnReset = func(e *simnet.End) { p.reset = true; p.w.rt.Logf("peer %s sees RST", p.name) }
	p.schedule()
}

func (p *peer) schedule() {
	if p.doneSending || p.reset {
		return
	}
	if p.sent >= p.total {
		if p.spec.WaitEOF && !p.eof {
			return // resumed from onEOF
		}
		p.finish()
		return
	}
	p.evSeq++
	label := fmt.Sprintf("peer:%s:send#%05d", p.name, p.evSeq)
	fn := func() { p.sendChunk() }
	gap := 0
	if len(p.spec.GapMs) > 0 {
		gap = p.spec.GapMs[p.chunkI%len(p.spec.GapMs)]
	}
	if gap > 0 {
		p.w.rt.AddEventAt(time.Now().Add(time.Duration(gap)*time.Millisecond), label, fn)
	} else {
		p.w.rt.AddEvent(label, fn)
	}
}

func (p *peer) sendChunk() {
	if p.reset || p.doneSending {
		return
	}
	n := p.total - p.sent
	if len(p.spec.Chunks) > 0 {
		c := p.spec.Chunks[p.chunkI%len(p.spec.Chunks)]
		if c > 0 && c < n {
			n = c
		}
	}
	p.chunkI++
	b := make([]byte, n)
	for i := range b {
		b[i] = p.outByte(p.sent + i)
	}
	if !p.end.Send(b) {
		p.reset = true
		return
	}
	p.sent += n
	p.schedule()
}

func (p *peer) finish() {
	p.doneSending = true
	switch p.spec.Finish {
	case "close":
		p.end.ActorClose()
		p.finished = true
	case "none":
	default:
		p.end.ActorCloseWrite()
		p.maybeClose()
	}
}

// maybeClose: an application closes its socket once it has finished sending and has seen the peer's EOF.
func (p *peer) maybeClose() {
	if p.doneSending && p.eof && !p.finished && p.spec.Finish != "none" {
		p.finished = true
		p.w.rt.AddEvent(fmt.Sprintf("peer:%s:close", p.name), func() { p.end.ActorClose() })
	}
}

func (p *peer) onData(b []byte) {
	for _, c := range b {
		if p.peerHeader == "" {
			p.hdrBuf = append(p.hdrBuf, c)
			if c == ':' {
				p.peerHeader = string(p.hdrBuf)
				p.peerKey = streamKey(p.peerHeader)
				p.w.linked(p)
			} else if len(p.hdrBuf) > 16 && p.bad == "" {
				p.bad = fmt.Sprintf("received %q where a stream header was expected", p.hdrBuf)
			}
			continue
		}
		if want := streamByte(p.peerKey, p.recvN); c != want && p.bad == "" {
			p.bad = fmt.Sprintf("byte %d of the stream from %s is 0x%02x, the sender sent 0x%02x", p.recvN, p.peerHeader, c, want)
		}
		p.recvN++
	}
}

func (p *peer) onEOF() {
	p.eof = true
	p.w.rt.Logf("peer %s sees EOF after %d body bytes", p.name, p.recvN)
	if p.spec.WaitEOF && p.sent >= p.total && !p.doneSending {
		p.finish()
		return
	}
	p.maybeClose()
}

type tcpWorld struct {
	cfgUpdates int
	sc         *TCPScenario
	rt         *simhook.Runtime
	env        *world.TCPEnv

	clients                       []*peer
	servers                       []*peer // backend-side peers in accept order
	byHeader                      map[string]*peer
	pendingConns                  []int
	firstConn                     int64
	firstConnAt                   time.Time
	listenUpAt                    time.Time
	fired                         []bool
	faultSteps                    []int64
	lastFault                     time.Time
	faultsFired                   map[string]int
	evSeq                         int
	pausedReceivers               int // receivers that are not reading at the moment (receiver-pause)
	hostTasks                     []*simhook.Task
	hcTasks                       []*simhook.Task
	stopRequested, drainRequested bool
	connectEvents                 int
	refused                       []string // clients whose connect was refused (listener closed)
	step                          func(w *tcpWorld) *simrt.Violation
	fin                           func(w *tcpWorld) *simrt.Violation
	netCounts                     map[string]int
	members                       map[int]bool // reference model: current endpoint set (by backend index)
	memberHistory                 []memberEvent
	typeNow                       map[int]bool // node -> is backup, for members whose type was changed by an announcement
	onServerConn                  func(w *tcpWorld, p *peer, b *world.Backend)
	startedStep                   int64
	probeDownSince                map[int]time.Time
	probeDownPast                 map[int][][2]time.Time // finished probe-failure windows per backend
	changeDone                    map[int64]int64        // step at which a membership change was requested -> step at which its task returned
	changeTasks                   map[int64]*simhook.Task
	removed                       []removedHost
	pendingRemoved                []removedHost
}

type removedHost struct {
	node int
	step int64 // request step (pending) / completion step (removed)
	how  string
}

type memberEvent struct {
	step    int64
	members map[int]bool
	backup  map[int]bool // members whose type is backup at that point
}

func newTCPWorld(sc *TCPScenario) *tcpWorld {
	return &tcpWorld{sc: sc, byHeader: map[string]*peer{}, fired: make([]bool, len(sc.Faults)), faultSteps: make([]int64, len(sc.Faults)),
		firstConn: -1, faultsFired: map[string]int{}, members: map[int]bool{}, startedStep: -1, changeDone: map[int64]int64{}, changeTasks: map[int64]*simhook.Task{}}
}

func (w *tcpWorld) Setup(rt *simhook.Runtime) {
	w.rt = rt
	w.env = world.NewTCPEnv(rt, w.sc.Env)
	if w.sc.Env.HC == nil {
		for _, b := range w.env.Backends {
			b.NoProbe = true
		}
	}
	for i := range w.faultSteps {
		w.faultSteps[i] = -1
	}
	if w.sc.Env.InitHosts == nil {
		for i := range w.env.Backends {
			w.members[i] = true
		}
	} else {
		for _, i := range w.sc.Env.InitHosts {
			w.members[i] = true
		}
	}
	w.snapshotMembers()
	for _, b := range w.env.Backends {
		b.OnConn = func(b *world.Backend, e *simnet.End, first []byte) {
			idx := len(w.servers)
			p := &peer{w: w, name: fmt.Sprintf("srv%d", idx), end: e, header: fmt.Sprintf("B%03d.%03d:", b.Idx, idx), connectedStep: rt.Step, connectedAt: time.Now()}
			w.servers = append(w.servers, p)
			if w.sc.Headerless {
				p.header = ""
				p.key = streamKey("S-headerless")
				p.peerHeader, p.peerKey = "-", streamKey("C-headerless")
				e.OnData = func(e *simnet.End) { p.onData(e.Take()) }
				e.OnEOF = func(e *simnet.End) { p.onEOF() }
				e.OnReset = func(e *simnet.End) { p.reset = true }
				if len(w.clients) > 0 && idx == 0 {
					p.other, w.clients[0].other = w.clients[0], p
				}
				p.spec = w.sc.Conns[0].S2C
				p.total = p.spec.Len
				p.schedule()
				if w.onServerConn != nil {
					w.onServerConn(w, p, b)
				}
				return
			}
			w.byHeader[p.header] = p
			// the S2C spec is the one of the client this connection belongs to: known once its header is parsed
			p.key = streamKey(p.header)
			e.OnData = func(e *simnet.End) { p.onData(e.Take()) }
			e.OnEOF = func(e *simnet.End) { p.onEOF() }
			e.OnReset = func(e *simnet.End) { p.reset = true }
			p.onData(first)
			if w.onServerConn != nil {
				w.onServerConn(w, p, b)
			}
		}
	}
	w.env.Start()
	for i := range w.sc.Conns {
		w.pendingConns = append(w.pendingConns, i)
	}
}

func (w *tcpWorld) snapshotMembers() {
	m := map[int]bool{}
	for k, v := range w.members {
		if v {
			m[k] = true
		}
	}
	b := map[int]bool{}
	for k := range m {
		if w.isBackup(k) {
			b[k] = true
		}
	}
	w.memberHistory = append(w.memberHistory, memberEvent{step: w.rtStep(), members: m, backup: b})
}

// isBackup: the type member k has now (a later announcement may have changed the type it started with)
func (w *tcpWorld) isBackup(k int) bool {
	if t, ok := w.typeNow[k]; ok {
		return t
	}
	return w.sc.Env.BackupFrom > 0 && k >= w.sc.Env.BackupFrom
}

func (w *tcpWorld) rtStep() int64 {
	if w.rt == nil {
		return 0
	}
	return w.rt.Step
}

// linked is called when a peer has parsed the header of the stream it receives.
func (w *tcpWorld) linked(p *peer) {
	o := w.byHeader[p.peerHeader]
	if o == nil {
		if p.bad == "" {
			p.bad = fmt.Sprintf("received the header %q of a stream nobody sends", p.peerHeader)
		}
		return
	}
	p.other = o
	if strings.HasPrefix(p.name, "srv") {
		// a backend-side peer learns which client it serves and starts sending that client's S2C stream
		for i, c := range w.sc.Conns {
			if w.clientHeader(i) == p.peerHeader {
				p.spec = c.S2C
				p.total = len(p.header) + p.spec.Len
				p.schedule()
			}
		}
	}
}

func (w *tcpWorld) clientHeader(i int) string { return fmt.Sprintf("C%04d:", i) }

func (w *tcpWorld) connectClient(i int) {
	c := w.sc.Conns[i]
	e, err := w.env.Net.Connect(world.TCPProxyAddr, "client-"+c.Name)
	if err != nil {
		w.refused = append(w.refused, c.Name)
		w.rt.Logf("client %s refused", c.Name)
		return
	}
	p := &peer{w: w, name: "cl-" + c.Name, end: e, header: w.clientHeader(i), spec: c.C2S, connectedStep: w.rt.Step, connectedAt: time.Now()}
	w.clients = append(w.clients, p)
	if w.sc.Headerless {
		p.header = ""
		p.peerHeader, p.peerKey = "-", streamKey("S-headerless")
	}
	w.byHeader[p.header] = p
	if w.firstConn < 0 {
		w.firstConn = w.rt.Step
		w.firstConnAt = time.Now()
	}
	p.start()
}

func (w *tcpWorld) Check() *simrt.Violation {
	if w.env.BuildErr != nil {
		return &simrt.Violation{Clause: "harness-build", Detail: w.env.BuildErr.Error()}
	}
	if w.listenUpAt.IsZero() && w.env.Net.Listening(world.TCPProxyAddr) {
		w.listenUpAt = time.Now()
	}
	// connect clients when due
	if !w.listenUpAt.IsZero() || w.stopRequested {
		var rest []int
		for _, i := range w.pendingConns {
			c := w.sc.Conns[i]
			due := time.Since(w.listenUpAt) >= time.Duration(c.AfterMs)*time.Millisecond
			if c.After > 0 && (w.firstConn < 0 && i != 0 || w.firstConn >= 0 && w.rt.Step-w.firstConn < int64(c.After)) {
				// step-based pacing; when nothing else is going on the connection simply arrives now
				due = w.firstConn >= 0 && w.env.Quiet() && w.connectEvents == len(w.clients)+len(w.refused)
			}
			if due {
				i := i
				w.connectEvents++
				w.rt.AddEvent(fmt.Sprintf("tcp-connect:%04d", i), func() { w.connectClient(i) })
			} else {
				rest = append(rest, i)
			}
		}
		if len(rest) > 0 && len(rest) == len(w.pendingConns) && len(w.rt.Parked()) == 0 {
			// let simulated time pass until the next connection is due
			next := time.Duration(1 << 62)
			for _, i := range rest {
				d := time.Duration(w.sc.Conns[i].AfterMs)*time.Millisecond - time.Since(w.listenUpAt)
				if d < next {
					next = d
				}
			}
			if next > 0 && next < time.Hour && !w.rt.HasEvent("tcp-connect-wake") {
				w.rt.AddEventAt(time.Now().Add(next), "tcp-connect-wake", func() {})
			}
		}
		w.pendingConns = rest
	}
	for _, p := range append(append([]*peer(nil), w.clients...), w.servers...) {
		if p.bad != "" {
			return &simrt.Violation{Clause: "stream-is-prefix-of-sent", Detail: fmt.Sprintf("%s (%s): %s", p.name, p.header, p.bad)}
		}
	}
	for reqStep, t := range w.changeTasks {
		if t.State == simhook.StDead && w.changeDone[reqStep] == 0 {
			w.changeDone[reqStep] = w.rt.Step
			for i := range w.pendingRemoved {
				if w.pendingRemoved[i].step == reqStep {
					w.removed = append(w.removed, removedHost{node: w.pendingRemoved[i].node, step: w.rt.Step, how: w.pendingRemoved[i].how})
				}
			}
		}
	}
	if w.step != nil {
		if v := w.step(w); v != nil {
			return v
		}
	}
	w.fireFaults()
	return nil
}

func (w *tcpWorld) fireFaults() {
	for i := range w.sc.Faults {
		f := &w.sc.Faults[i]
		if w.fired[i] {
			continue
		}
		due := false
		switch {
		case f.AtMs > 0:
			due = !w.listenUpAt.IsZero() && time.Since(w.listenUpAt) >= time.Duration(f.AtMs)*time.Millisecond
			if !due && !w.listenUpAt.IsZero() && len(w.rt.Parked()) == 0 && !w.rt.HasEvent(fmt.Sprintf("tcp-fault-wake:%d", i)) {
				w.rt.AddEventAt(w.listenUpAt.Add(time.Duration(f.AtMs)*time.Millisecond), fmt.Sprintf("tcp-fault-wake:%d", i), func() {})
			}
		default:
			due = w.firstConn >= 0 && w.rt.Step-w.firstConn >= int64(f.After)
			if f.AfterStart > 0 {
				if w.env.Started && w.startedStep < 0 {
					w.startedStep = w.rt.Step
				}
				due = w.startedStep >= 0 && w.rt.Step-w.startedStep >= int64(f.AfterStart-1)
			}
		}
		if due && f.Site != "" {
			due = false
			for _, t := range w.rt.Parked() {
				if strings.Contains(t.Site, f.Site) {
					due = true
				}
			}
		}
		if due && (f.Kind == "stop" || f.Kind == "drain") {
			// the controller, which issues configuration updates and stops services, is one event loop: a service is not
			// stopped in the middle of an update of its health-check section (the monitor would be replaced under Stop's feet)
			for _, t := range w.hcTasks {
				if t.State != simhook.StDead {
					due = false
				}
			}
		}
		if due && (strings.HasPrefix(f.Kind, "host-") || f.Kind == "config-update" || f.Kind == "hc-update") {
			// the controller applies membership changes one after the other: wait for the previous one
			for _, t := range w.hostTasks {
				if t.State != simhook.StDead {
					due = false
				}
			}
		}
		if !due {
			continue
		}
		w.fired[i] = true
		if w.inject(f) {
			w.faultsFired[f.Kind]++
			w.lastFault = time.Now()
			w.faultSteps[i] = w.rt.Step
		}
		return
	}
}

func (w *tcpWorld) hostsOf(f *TCPFault, idx ...int) []*host.Host {
	var hs []*host.Host
	for _, i := range idx {
		if i < len(w.env.Backends) {
			h := w.env.HostOf(i)
			if f.AsBackup {
				h = host.NewWithType(world.BackendAddr(i), host.TypeBackup)
			}
			hs = append(hs, h)
		}
	}
	return hs
}

func (w *tcpWorld) inject(f *TCPFault) bool {
	w.rt.Logf("FAULT %s node=%d nodes=%v", f.Kind, f.Node, f.Nodes)
	p := w.env.Proc
	switch f.Kind {
	case "host-remove":
		if p == nil {
			return false
		}
		hs := w.hostsOf(f, f.Node)
		switch f.Extra {
		case "dup":
			hs = append(hs, w.hostsOf(f, f.Node)...)
		case "unknown":
			hs = append(hs, host.New("10.1.9.9:80"))
		}
		was := w.members[f.Node]
		delete(w.members, f.Node)
		w.snapshotMembers()
		tk := w.rt.Go("harness:host-remove", func() { p.OnSvcHostRemove(hs) })
		w.hostTasks = append(w.hostTasks, tk)
		w.changeTasks[w.rt.Step] = tk
		if was {
			w.pendingRemoved = append(w.pendingRemoved, removedHost{node: f.Node, step: w.rt.Step, how: "OnSvcHostRemove with a fresh Host object, as the controller does"})
		}
		return true
	case "host-add":
		if p == nil {
			return false
		}
		hs := w.hostsOf(f, f.Node)
		if f.OtherType && f.Node < len(w.env.Backends) {
			nb := !w.isBackup(f.Node)
			if w.typeNow == nil {
				w.typeNow = map[int]bool{}
			}
			w.typeNow[f.Node] = nb
			t := host.TypeMain
			if nb {
				t = host.TypeBackup
			}
			hs = []*host.Host{host.NewWithType(world.BackendAddr(f.Node), t)}
		} else if w.typeNow != nil && f.Node < len(w.env.Backends) {
			// announced again with the type of its configuration
			delete(w.typeNow, f.Node)
		}
		w.members[f.Node] = true
		w.snapshotMembers()
		tk := w.rt.Go("harness:host-add", func() { p.OnSvcHostAdd(hs) })
		w.hostTasks = append(w.hostTasks, tk)
		w.changeTasks[w.rt.Step] = tk
		return true
	case "host-replace":
		if p == nil {
			return false
		}
		hs := w.hostsOf(f, f.Nodes...)
		old := w.members
		w.typeNow = nil // the new list announces every endpoint with the type of its configuration
		w.members = map[int]bool{}
		for _, i := range f.Nodes {
			if i < len(w.env.Backends) {
				w.members[i] = true
			}
		}
		w.snapshotMembers()
		tk := w.rt.Go("harness:host-replace", func() { p.OnSvcAllHostReplace(hs) })
		w.hostTasks = append(w.hostTasks, tk)
		w.changeTasks[w.rt.Step] = tk
		for i := range old {
			if !w.members[i] {
				w.pendingRemoved = append(w.pendingRemoved, removedHost{node: i, step: w.rt.Step, how: "OnSvcAllHostReplace without it"})
			}
		}
		return true
	case "config-update":
		// an update of the service configuration that changes neither policy nor health check nor listener
		if p == nil {
			return false
		}
		w.cfgUpdates++
		cfg := w.env.SvcConfigVariant(w.cfgUpdates)
		tk := w.rt.Go("harness:config-update", func() { p.OnSvcConfigUpdate(cfg) })
		w.hostTasks = append(w.hostTasks, tk)
		return true
	case "hc-update":
		// an update of the service configuration whose health-check section differs from the one in force
		if p == nil || w.stopRequested {
			return false
		}
		w.cfgUpdates++
		cfg := w.env.SvcConfigHC(w.cfgUpdates)
		tk := w.rt.Go("harness:hc-update", func() { p.OnSvcConfigUpdate(cfg) })
		w.hostTasks = append(w.hostTasks, tk)
		w.hcTasks = append(w.hcTasks, tk)
		return true
	case "receiver-pause":
		// the client of connection f.Node stops reading for f.ForMs: what the proxy writes to it piles up in the socket
		// buffers, then the relay's write blocks (back-pressure) while the backend keeps sending
		if f.Node >= len(w.sc.Conns) {
			return false
		}
		for _, c := range w.clients {
			if c.name == "cl-"+w.sc.Conns[f.Node].Name && c.end != nil && !c.eof && !c.reset {
				pe := c.end.Peer()
				pe.Stall(true)
				w.evSeq++
				w.pausedReceivers++
				w.rt.AddEventAt(time.Now().Add(time.Duration(f.ForMs)*time.Millisecond), fmt.Sprintf("receiver-resume:%s#%d", c.name, w.evSeq), func() {
					w.pausedReceivers--
					w.lastFault = time.Now()
					pe.Stall(false)
				})
				return true
			}
		}
		return false
	case "backend-down":
		w.env.SetAccepting(f.Node, false)
		return true
	case "backend-up":
		w.env.SetAccepting(f.Node, true)
		return true
	case "probe-fail":
		w.env.Backends[f.Node].ProbeOK = false
		if w.probeDownSince == nil {
			w.probeDownSince = map[int]time.Time{}
		}
		w.probeDownSince[f.Node] = time.Now()
		return true
	case "probe-ok":
		w.env.Backends[f.Node].ProbeOK = true
		if since, ok := w.probeDownSince[f.Node]; ok {
			if w.probeDownPast == nil {
				w.probeDownPast = map[int][][2]time.Time{}
			}
			w.probeDownPast[f.Node] = append(w.probeDownPast[f.Node], [2]time.Time{since, time.Now()})
		}
		delete(w.probeDownSince, f.Node)
		return true
	case "stop":
		if w.stopRequested || w.env.StartTask == nil {
			return false
		}
		w.stopRequested = true
		w.env.Stop()
		return true
	case "drain":
		if w.drainRequested || w.env.StartTask == nil {
			return false
		}
		w.drainRequested = true
		w.env.Drain()
		return true
	case "accept-error":
		return w.env.Net.InjectAcceptError(world.TCPProxyAddr)
	}
	return false
}

func (w *tcpWorld) allFaultsFired() bool {
	for _, f := range w.fired {
		if !f {
			return false
		}
	}
	return true
}

// peersSettled: every application peer has finished or lost its connection.
func (w *tcpWorld) peersSettled() bool {
	for _, p := range append(append([]*peer(nil), w.clients...), w.servers...) {
		if p.reset {
			continue
		}
		if p.spec.Finish == "none" {
			if p.sent < p.total {
				return false
			}
			continue
		}
		if !p.doneSending || !(p.eof || p.finished) {
			return false
		}
	}
	return true
}

func (w *tcpWorld) Done() bool {
	if len(w.pendingConns) > 0 || w.firstConn < 0 && len(w.sc.Conns) > 0 {
		return false
	}
	if w.connectEvents > len(w.clients)+len(w.refused) || w.pausedReceivers > 0 {
		return false
	}
	if !w.peersSettled() || !w.env.Quiet() {
		return false
	}
	for i, f := range w.sc.Faults {
		if !w.fired[i] && f.Site == "" {
			return false
		}
	}
	if w.stopRequested && !w.env.StopReturned {
		return false
	}
	if w.drainRequested && !w.env.DrainReturned {
		return false
	}
	for _, t := range w.hostTasks {
		if t.State != simhook.StDead {
			return false
		}
	}
	return true
}

func (w *tcpWorld) horizon() time.Duration {
	if w.sc.HorizonS > 0 {
		return time.Duration(w.sc.HorizonS) * time.Second
	}
	return defaultHorizon
}

func (w *tcpWorld) Deadline() time.Time {
	if w.env.StartTask == nil {
		return time.Time{}
	}
	ref := w.listenUpAt
	if w.firstConnAt.After(ref) {
		ref = w.firstConnAt
	}
	if w.lastFault.After(ref) {
		ref = w.lastFault
	}
	if ref.IsZero() {
		return time.Time{}
	}
	if !w.allFaultsFired() || len(w.pendingConns) > 0 {
		return ref.Add(3 * w.horizon())
	}
	return ref.Add(w.horizon())
}

func (w *tcpWorld) Draining() bool { return w.allFaultsFired() }

func (w *tcpWorld) Final() *simrt.Violation {
	if w.fin != nil {
		return w.fin(w)
	}
	return nil
}

func (w *tcpWorld) Freeze() {
	w.netCounts = map[string]int{}
	for k, v := range w.env.Net.Counts {
		w.netCounts[k] = v
	}
}

func (w *tcpWorld) Teardown() {
	for _, p := range w.clients {
		p.end.ActorClose()
	}
	for _, p := range w.servers {
		p.end.ActorClose()
	}
	w.env.Stop()
}

func (w *tcpWorld) blockedSites(sub string) []string {
	set := map[string]bool{}
	for _, t := range w.rt.Tasks() {
		if t.State == simhook.StDead {
			continue
		}
		if sub == "" || strings.Contains(t.Role+"@"+t.Site, sub) {
			set[t.Role+"@"+t.Site] = true
		}
	}
	var out []string
	for s := range set {
		out = append(out, s)
	}
	sort.Strings(out)
	return out
}

func runTCP(t *testing.T, sc *TCPScenario, w *tcpWorld) harness.Outcome {
	res := simrt.Run(t, w, sc.Options())
	out := harness.Outcome{Res: res, Faults: w.faultsFired}
	if w.env != nil {
		world.DropStats(w.env.Name)
		for k, v := range w.netCounts {
			if k == "frag" || k == "backpressure" || k == "dial-refused" || k == "dial-timeout" || k == "rst-on-closed" || k == "rst-on-close-unread" || k == "listen-busy" || k == "accept-temp-error" {
				out.Faults[k] += v
			}
		}
	}
	return out
}

func cloneTCP(sc *TCPScenario) *TCPScenario {
	cp := *sc
	cp.Conns = append([]TCPConn(nil), sc.Conns...)
	cp.Faults = append([]TCPFault(nil), sc.Faults...)
	return &cp
}

func shrinkTCP(sc *TCPScenario) []harness.Scenario {
	var out []harness.Scenario
	add := func(f func(c *TCPScenario) bool) {
		c := cloneTCP(sc)
		if f(c) {
			out = append(out, c)
		}
	}
	for i := range sc.Conns {
		i := i
		if len(sc.Conns) > 1 {
			add(func(c *TCPScenario) bool { c.Conns = append(c.Conns[:i:i], c.Conns[i+1:]...); return true })
		}
	}
	for i := range sc.Faults {
		i := i
		if len(sc.Faults) > 1 {
			add(func(c *TCPScenario) bool { c.Faults = append(c.Faults[:i:i], c.Faults[i+1:]...); return true })
		}
	}
	for i := range sc.Conns {
		i := i
		cn := sc.Conns[i]
		if cn.C2S.Len > 1 {
			add(func(c *TCPScenario) bool { c.Conns[i].C2S.Len /= 2; return true })
		}
		if cn.S2C.Len > 1 {
			add(func(c *TCPScenario) bool { c.Conns[i].S2C.Len /= 2; return true })
		}
		if len(cn.C2S.Chunks) > 0 || len(cn.S2C.Chunks) > 0 || len(cn.C2S.GapMs) > 0 || len(cn.S2C.GapMs) > 0 {
			add(func(c *TCPScenario) bool {
				c.Conns[i].C2S.Chunks, c.Conns[i].S2C.Chunks, c.Conns[i].C2S.GapMs, c.Conns[i].S2C.GapMs = nil, nil, nil, nil
				return true
			})
		}
		if cn.AfterMs > 0 || cn.After > 0 {
			add(func(c *TCPScenario) bool { c.Conns[i].AfterMs, c.Conns[i].After = 0, 0; return true })
		}
	}
	if sc.Env.FragNum > 0 {
		add(func(c *TCPScenario) bool { c.Env.FragNum = 0; return true })
	}
	if sc.Env.BufCap > 0 {
		add(func(c *TCPScenario) bool { c.Env.BufCap = 0; return true })
	}
	if sc.Env.Backends > 1 && len(sc.Faults) == 0 {
		add(func(c *TCPScenario) bool { c.Env.Backends--; return true })
	}
	if sc.SlackMs > 0 {
		add(func(c *TCPScenario) bool { c.SlackMs = 0; return true })
	}
	if sc.Strategy != "uniform" {
		add(func(c *TCPScenario) bool { c.Strategy = "uniform"; return true })
	}
	return out
}

package profiles

import (
	"bytes"
	"fmt"
	"sort"
	"strings"
	"testing"

	"github.com/anishathalye/porcupine"

	"verif.local/sim/cluster"
	"verif.local/sim/harness"
	"verif.local/sim/refredis"
	"verif.local/sim/resp2"
	"verif.local/sim/simhook"
	"verif.local/sim/world"
)

// C03 — on a stable cluster the proxy behaves like a single Redis server.
type c03 struct{}

func init() { harness.Register(c03{}) }

type C03Scenario struct {
	RedisScenario
	Mode  string   `json:"mode"`            // seq | conc
	Order [][2]int `json:"order,omitempty"` // seq mode: global order of (conn, request index)
}

func (c03) ID() string              { return "C03" }
func (c03) Empty() harness.Scenario { return &C03Scenario{} }
func (c03) NontrivialRule() string {
	return "a program is non-trivial when it holds >= 3 commands touching >= 2 nodes, or (concurrent mode) >= 2 connections issued overlapping operations on one key; distinct = distinct (scenario, execution-hash) pairs"
}
func (c03) Components() ([]string, []string) {
	return []string{"proc.listener", "redis.session", "redis.handler", "redis.request", "redis.upstream (slot table, routing)", "redis.util (crc16, hashtag)", "redis.codec"},
		[]string{"network (simnet)", "Redis cluster nodes (cluster: independent bitwise CRC16 + refredis)", "clients", "single-server reference (refredis)", "porcupine linearizability checker"}
}

// genBytes: adversarial byte strings for values.
func genBytes(r *simhook.Rand, tier string) []byte {
	switch r.Intn(12) {
	case 0:
		return []byte{}
	case 1:
		return []byte("\r\n")
	case 2:
		return []byte("a\r\nb\x00c\xff")
	case 3:
		return []byte("$5\r\nhello\r\n")
	case 4:
		n := sizeEdges[r.Intn(len(sizeEdges))]
		return r.Bytes(n)
	case 5:
		if tier == "thorough" && r.Chance(1, 20) {
			return r.Bytes(1<<20 + r.Intn(3<<20))
		}
		return r.Bytes(r.Intn(70000))
	case 6:
		return []byte(fmt.Sprint(r.Intn(2000) - 1000))
	default:
		return r.Bytes(1 + r.Intn(24))
	}
}

// routingKey: keys built to exercise every CRC table entry at several byte positions and every
// placement class of '{' and '}'.
func routingKey(r *simhook.Rand) string {
	body := r.Bytes(1 + r.Intn(8))
	for i := range body {
		if body[i] == '{' || body[i] == '}' {
			body[i] = 'x'
		}
	}
	tag := string(r.Bytes(1 + r.Intn(3)))
	tag = strings.NewReplacer("{", "y", "}", "z").Replace(tag)
	b := string(body)
	switch r.Intn(13) {
	case 10:
		return b + "}{" + tag + "}" // a closing brace ahead of the first opening one
	case 11:
		return "}}{" + tag + "}" + b
	case 12:
		// every placement there is: short strings over a four-letter alphabet
		// (the empty key included: a legal key, slot 0)
		k := make([]byte, r.Intn(9))
		for i := range k {
			k[i] = "ab{}"[r.Intn(4)]
		}
		return string(k)
	case 0:
		return b
	case 1:
		return "{}" + b
	case 2:
		return "{" + tag + "}" + b
	case 3:
		return b + "{" + tag + "}"
	case 4:
		return b[:len(b)/2] + "{" + tag + "}" + b[len(b)/2:]
	case 5:
		return "{{" + tag + "}}" + b
	case 6:
		return "}" + b + "{" + tag
	case 7:
		return "{" + tag + "}" + b + "{other}"
	case 8:
		return b + "{" + tag
	default:
		return "{" + tag + "}"
	}
}

func genLayout(r *simhook.Rand, masters int) []world.SlotRange {
	if masters == 1 || r.Chance(1, 4) {
		return nil // even split
	}
	var out []world.SlotRange
	if r.Chance(1, 2) {
		// contiguous ranges with random cut points (every master gets at least one slot)
		cuts := map[int]bool{}
		for len(cuts) < masters-1 {
			cuts[1+r.Intn(cluster.NumSlots-1)] = true
		}
		var cs []int
		for c := range cuts {
			cs = append(cs, c)
		}
		sort.Ints(cs)
		prev := 0
		perm := r.Perm(masters)
		for i, c := range cs {
			out = append(out, world.SlotRange{From: prev, To: c - 1, Node: perm[i]})
			prev = c
		}
		out = append(out, world.SlotRange{From: prev, To: cluster.NumSlots - 1, Node: perm[masters-1]})
		return out
	}
	// scattered: many small chunks assigned at random, plus single slots
	chunk := 16 << uint(r.Intn(8))
	i := 0
	for from := 0; from < cluster.NumSlots; from += chunk {
		to := from + chunk - 1
		if to >= cluster.NumSlots {
			to = cluster.NumSlots - 1
		}
		n := r.Intn(masters)
		if i < masters {
			n = i
		}
		i++
		out = append(out, world.SlotRange{From: from, To: to, Node: n})
	}
	for k := 0; k < r.Intn(6); k++ {
		s := r.Intn(cluster.NumSlots)
		out = append(out, world.SlotRange{From: s, To: s, Node: r.Intn(masters)})
	}
	return out
}

func genC03Cmd(r *simhook.Rand, tier, conn string, k int, key func() string, privKey func() string, conc bool) world.Request {
	val := func() world.Bin {
		if r.Chance(1, 3) {
			return world.Bin(genBytes(r, tier))
		}
		return world.Bin(uniqueVal(conn, k, 6+r.Intn(12)))
	}
	uval := func() world.Bin { return world.Bin(uniqueVal(conn, k*16+r.Intn(16), 8)) }
	var a []world.Bin
	switch x := r.Intn(100); {
	case x < 14:
		a = world.Bins("GET", key())
	case x < 24:
		a = append(world.Bins("SET", key()), val())
	case x < 27:
		a = append(world.Bins("SETNX", key()), uval())
	case x < 30:
		a = append(world.Bins("GETSET", key()), uval())
	case x < 34:
		a = append(world.Bins("APPEND", key()), uval())
	case x < 36:
		a = world.Bins("STRLEN", key())
	case x < 40:
		a = world.Bins([]string{"INCR", "DECR"}[r.Intn(2)], key())
	case x < 42:
		a = world.Bins("INCRBY", key(), fmt.Sprint(r.Intn(100)-50))
	case x < 44:
		a = world.Bins("GETRANGE", key(), fmt.Sprint(r.Intn(8)-4), fmt.Sprint(r.Intn(8)-2))
	case x < 47:
		a = world.Bins([]string{"TYPE", "TTL", "PERSIST"}[r.Intn(3)], key())
	case x < 49:
		a = world.Bins("EXPIRE", key(), fmt.Sprint(1+r.Intn(1000)))
	case x < 54:
		a = append(world.Bins("HSET", key(), fmt.Sprintf("f%d", r.Intn(3))), val())
	case x < 58:
		a = world.Bins([]string{"HGET", "HEXISTS", "HDEL", "HSTRLEN"}[r.Intn(4)], key(), fmt.Sprintf("f%d", r.Intn(3)))
	case x < 61:
		a = world.Bins([]string{"HGETALL", "HLEN", "HKEYS", "HVALS"}[r.Intn(4)], key())
	case x < 63:
		a = append(world.Bins("HMSET", key(), "f0"), val(), world.Bin("f1"), val())
	case x < 65:
		a = world.Bins("HMGET", key(), "f0", "f1", "f9")
	case x < 70:
		a = append(world.Bins([]string{"LPUSH", "RPUSH"}[r.Intn(2)], key()), uval())
	case x < 73:
		a = world.Bins([]string{"LPOP", "RPOP", "LLEN"}[r.Intn(3)], key())
	case x < 75:
		a = world.Bins("LRANGE", key(), "0", "-1")
	case x < 79:
		a = world.Bins([]string{"SADD", "SREM", "SISMEMBER"}[r.Intn(3)], key(), fmt.Sprintf("m%d", r.Intn(4)))
	case x < 81:
		a = world.Bins([]string{"SCARD", "SMEMBERS"}[r.Intn(2)], key())
	case x < 84:
		a = world.Bins("ZADD", key(), fmt.Sprint(r.Intn(10)), fmt.Sprintf("m%d", r.Intn(4)))
	case x < 87:
		a = world.Bins([]string{"ZSCORE", "ZREM"}[r.Intn(2)], key(), fmt.Sprintf("m%d", r.Intn(4)))
	case x < 89:
		a = world.Bins("ZRANGE", key(), "0", "-1")
	case x < 92: // opaque mode: forwarded commands whose semantics are not modelled
		a = world.Bins([]string{"SETBIT", "BITCOUNT", "PFADD", "ZCOUNT", "LINSERT", "SORT", "GEOPOS", "HINCRBYFLOAT"}[r.Intn(8)], key(), "1", "2")
	case x < 95:
		a = world.Bins("MGET")
		for i := 0; i < 1+r.Intn(5); i++ {
			a = append(a, world.Bin(key()))
		}
	case x < 97:
		a = world.Bins("MSET")
		for i := 0; i < 1+r.Intn(3); i++ {
			a = append(a, world.Bin(key()), world.Bin(uniqueVal(conn, k*16+i, 8)))
		}
	default:
		kf := key
		if conc {
			kf = privKey // sum results are only determined on keys nobody else touches
		}
		a = world.Bins([]string{"DEL", "EXISTS", "TOUCH", "UNLINK"}[r.Intn(4)])
		for i := 0; i < 1+r.Intn(3); i++ {
			a = append(a, world.Bin(kf()))
		}
	}
	rq := world.Request{Args: a}
	if r.Chance(1, 10) {
		b := a[0]
		rq.Args[0] = world.Bin(strings.ToLower(string(b)))
	}
	rq.Cut = cutPoints(r, len(rq.Encode()))
	return rq
}

func (p c03) Gen(r *simhook.Rand, tier string, idx int) harness.Scenario {
	sc := &C03Scenario{}
	sc.Meta = harness.GenMeta(r, 0)
	sc.Mode = "seq"
	if r.Chance(1, 2) {
		sc.Mode = "conc"
	}
	sc.Class = sc.Mode
	long := sc.Mode == "conc" && r.Chance(1, 5)
	if long {
		sc.Class = "conc+long"
		if r.Chance(1, 2) {
			// aim dense exploration at the code this class is about: the table refresh and the lookup that races with it
			sc.Dense = true
			sc.DenseFuncs = []string{"(*upstream).doSlotsRefresh", "(*upstream).chooseHost"}
		}
	}
	sc.Env = world.RedisCfg{Masters: 1 + r.Intn(8)}
	sc.Env.Layout = genLayout(r, sc.Env.Masters)
	if r.Chance(1, 3) {
		sc.Env.FragNum, sc.Env.FragDen = 1, 1+r.Intn(4)
	}
	if r.Chance(1, 8) {
		sc.Env.BufCap = []int{1, 64, 4096, 262144}[r.Intn(4)]
	}
	nshared := 2 + r.Intn(6)
	var shared []string
	for i := 0; i < nshared; i++ {
		if r.Chance(1, 3) {
			shared = append(shared, routingKey(r))
		} else {
			shared = append(shared, keyPool(r, 1, "s")[0]+fmt.Sprint(i))
		}
	}
	use := map[string]int{}
	nconn := 1 + r.Intn(4)
	total := 5 + r.Intn(60)
	if tier == "thorough" && r.Chance(1, 4) {
		total = 60 + r.Intn(140)
	}
	for ci := 0; ci < nconn; ci++ {
		name := fmt.Sprintf("c%d", ci)
		priv := []string{name + ":p0", name + ":{p}1", routingKey(r) + name}
		n := total / nconn
		if n < 1 {
			n = 1
		}
		cs := ConnScript{Name: name}
		key := func() string {
			for tries := 0; tries < 8; tries++ {
				k := shared[r.Intn(len(shared))]
				if sc.Mode != "conc" || use[k] < 22 {
					use[k]++
					return k
				}
			}
			return priv[r.Intn(len(priv))]
		}
		privKey := func() string { return priv[r.Intn(len(priv))] }
		for k := 0; k < n; k++ {
			cs.Reqs = append(cs.Reqs, genC03Cmd(r, tier, name, k, key, privKey, sc.Mode == "conc"))
		}
		if sc.Mode == "conc" && r.Chance(1, 3) {
			cs.MaxOut = 1 + r.Intn(3)
		}
		if long {
			// pauses of up to 2.5 simulated minutes: the traffic overlaps the periodic slot refreshes
			for i := range cs.Reqs {
				if r.Chance(1, 4) {
					cs.Reqs[i].Gap = r.Intn(150000)
				}
			}
		}
		sc.Conns = append(sc.Conns, cs)
	}
	// preload some of the shared keys
	for i, k := range shared {
		if r.Chance(1, 2) {
			sc.Env.Preload = append(sc.Env.Preload, world.KV{K: world.Bin(k), V: world.Bin(uniqueVal("pre", i, 10))})
		}
	}
	if sc.Mode == "seq" {
		// a random global interleaving that respects each connection's own order
		next := make([]int, len(sc.Conns))
		left := 0
		for _, c := range sc.Conns {
			left += len(c.Reqs)
		}
		for left > 0 {
			ci := r.Intn(len(sc.Conns))
			if next[ci] >= len(sc.Conns[ci].Reqs) {
				continue
			}
			sc.Order = append(sc.Order, [2]int{ci, next[ci]})
			next[ci]++
			left--
		}
	}
	return sc
}

// ---- linearizability model: one key, with per-connection program order ----

type linState struct {
	store *refredis.Store
	last  map[int]int
}

type linIn struct {
	conn, idx int
	args      [][]byte
}

func (s linState) fp() uint64 {
	h := s.store.Fingerprint()
	cs := make([]int, 0, len(s.last))
	for c := range s.last {
		cs = append(cs, c)
	}
	sort.Ints(cs)
	for _, c := range cs {
		h = simhook.Mix(h ^ uint64(c)<<32 ^ uint64(s.last[c]))
	}
	return h
}

func linModel(init *refredis.Store) porcupine.Model {
	return porcupine.Model{
		Init: func() interface{} { return linState{store: init, last: map[int]int{}} },
		Step: func(state, input, output interface{}) (bool, interface{}) {
			st := state.(linState)
			in := input.(linIn)
			out := output.(resp2.Value)
			if l, ok := st.last[in.conn]; ok && in.idx < l {
				return false, st // would invert the program order of a connection
			}
			ns := linState{store: st.store.Clone(), last: map[int]int{}}
			for k, v := range st.last {
				ns.last[k] = v
			}
			ns.last[in.conn] = in.idx
			want := ns.store.Exec(in.args)
			if out.Kind == 0 {
				return true, ns
			}
			if want.IsErr() {
				return out.IsErr(), ns
			}
			return bytes.Equal(want.Bytes(), out.Bytes()), ns
		},
		Equal: func(a, b interface{}) bool { return a.(linState).fp() == b.(linState).fp() },
	}
}

// childOps splits a request into per-key operations (input args, output extractor).
func childOps(args [][]byte, reply resp2.Value) (ins [][][]byte, outs []resp2.Value, ok bool) {
	name := strings.ToLower(string(args[0]))
	switch name {
	case "mget":
		if reply.Kind != resp2.Array || len(reply.Arr) != len(args)-1 {
			return nil, nil, false
		}
		for i, k := range args[1:] {
			ins = append(ins, [][]byte{[]byte("get"), k})
			outs = append(outs, reply.Arr[i])
		}
		return ins, outs, true
	case "mset":
		if reply.IsErr() {
			return nil, nil, false
		}
		for i := 1; i+1 < len(args); i += 2 {
			ins = append(ins, [][]byte{[]byte("set"), args[i], args[i+1]})
			outs = append(outs, resp2.S("OK"))
		}
		return ins, outs, true
	}
	return [][][]byte{args}, []resp2.Value{reply}, true
}

func (p c03) Run(t *testing.T, s harness.Scenario) harness.Outcome {
	sc := s.(*C03Scenario)
	w := newRedisWorld(&sc.RedisScenario)
	var bad *simrtViolation
	pos := 0 // seq mode: index into Order of the next request allowed to be sent
	ref := refredis.New()
	for _, kv := range sc.Env.Preload {
		ref.SetString(string(kv.K), kv.V)
	}
	init := ref.Clone()
	connIdx := map[string]int{}
	for i, c := range sc.Conns {
		connIdx[c.Name] = i
	}
	overlap := false
	w.step = func(w *redisWorld) *simrtViolation {
		if bad != nil {
			return bad
		}
		for _, c := range w.env.Clients {
			if c.OnReply != nil {
				continue
			}
			ci := connIdx[c.Name]
			if sc.Mode == "seq" {
				c.Gate = func(c *world.Client, idx int) bool {
					return pos < len(sc.Order) && sc.Order[pos] == [2]int{ci, idx} && w.outstanding() == 0
				}
				c.OnReply = func(c *world.Client, s *world.Sent) {
					rq := c.Script[s.Idx]
					e := expectRequest(ref, rq, nil)
					if !e.Matches(s.Reply) && bad == nil {
						bad = &simrtViolation{Clause: "reply-equals-single-server",
							Detail: fmt.Sprintf("sequential program, step %d of %d: connection %s request %s got %s; a single Redis server holding all data replies %s",
								pos, len(sc.Order), c.Name, describeReq(rq), s.Reply.String(), e.String())}
					}
					pos++
				}
			} else {
				c.OnReply = func(c *world.Client, s *world.Sent) {}
			}
		}
		if sc.Mode == "seq" {
			for _, c := range w.env.Clients {
				c.Kick()
			}
		} else if w.outstandingConns() >= 2 {
			overlap = true
		}
		return bad
	}
	w.fin = func(w *redisWorld) *simrtViolation {
		if bad != nil {
			return bad
		}
		cl := w.env.Cluster
		// a cluster with a loaded routing table produces no redirections
		if cl.Redirects != 0 {
			var first string
			for _, le := range cl.Log {
				if !le.Accepted {
					first = fmt.Sprintf("node %d answered %s to %q", le.Node, le.Reply.String(), bytes.Join(le.Args, []byte(" ")))
					break
				}
			}
			return &simrtViolation{Clause: "no-redirection-on-stable-cluster", Detail: fmt.Sprintf("%d redirections on a stable cluster with a loaded routing table; first: %s", cl.Redirects, trunc([]byte(first), 300))}
		}
		// relay: what backends executed is byte-for-byte what the clients sent (as per-key commands)
		want := map[string]int{}
		for _, c := range w.env.Clients {
			for _, sn := range c.Sent {
				args := world.BinsToBytes(c.Script[sn.Idx].Args)
				for _, ch := range forwardedForms(args) {
					want[ch]++
				}
			}
		}
		got := map[string]int{}
		for _, le := range cl.Log {
			n := strings.ToLower(string(le.Args[0]))
			if n == "readonly" || n == "cluster" || n == "asking" {
				continue
			}
			got[formKey(le.Args)]++
		}
		for k, n := range want {
			if got[k] != n {
				return &simrtViolation{Clause: "relayed-byte-for-byte", Detail: fmt.Sprintf("backends executed %q %d time(s), clients sent it %d time(s)", trunc([]byte(k), 200), got[k], n)}
			}
		}
		for k, n := range got {
			if want[k] != n {
				return &simrtViolation{Clause: "relayed-byte-for-byte", Detail: fmt.Sprintf("backends executed %q %d time(s), clients sent it %d time(s)", trunc([]byte(k), 200), n, want[k])}
			}
		}
		if sc.Mode != "conc" {
			return nil
		}
		// concurrent mode: per key, linearizable w.r.t. the reference with per-connection program order
		type op struct {
			key string
			o   porcupine.Operation
		}
		byKey := map[string][]porcupine.Operation{}
		for _, c := range w.env.Clients {
			ci := connIdx[c.Name]
			for _, sn := range c.Sent {
				args := world.BinsToBytes(c.Script[sn.Idx].Args)
				name := strings.ToLower(string(args[0]))
				var ins [][][]byte
				var outs []resp2.Value
				ok := true
				if name == "del" || name == "exists" || name == "touch" || name == "unlink" {
					// issued on connection-private keys only; the per-key counts are not visible in the
					// summed reply, so the per-key operations take effect with an unjudged output
					if sn.Reply.Kind != resp2.Int {
						ok = false
					}
					for _, k := range args[1:] {
						ins = append(ins, [][]byte{args[0], k})
						outs = append(outs, resp2.Value{})
					}
				} else {
					ins, outs, ok = childOps(args, sn.Reply)
				}
				if !ok {
					return &simrtViolation{Clause: "reply-shape", Detail: fmt.Sprintf("connection %s request %s got %s", c.Name, describeReq(c.Script[sn.Idx]), sn.Reply.String())}
				}
				for i := range ins {
					k := string(ins[i][refredis.KeyIndex(string(ins[i][0]))])
					byKey[k] = append(byKey[k], porcupine.Operation{ClientId: ci, Input: linIn{conn: ci, idx: sn.Idx, args: ins[i]}, Call: sn.InvokeStep, Output: outs[i], Return: sn.DoneStep})
				}
			}
		}
		keys := make([]string, 0, len(byKey))
		for k := range byKey {
			keys = append(keys, k)
		}
		sort.Strings(keys)
		w.post = append(w.post, func() *simrtViolation {
			for _, k := range keys {
				progressTick()
				one := refredis.New()
				if v, ok := init.RawString(k); ok {
					one.SetString(k, v)
				}
				res := porcupine.CheckOperationsTimeout(linModel(one), byKey[k], linTimeout)
				switch res {
				case porcupine.Illegal:
					var hist []string
					ops := byKey[k]
					sort.Slice(ops, func(i, j int) bool { return ops[i].Call < ops[j].Call })
					for _, o := range ops {
						in := o.Input.(linIn)
						hist = append(hist, fmt.Sprintf("c%d#%d [%d,%d] %q -> %s", in.conn, in.idx, o.Call, o.Return, trunc(bytes.Join(in.args, []byte(" ")), 60), o.Output.(resp2.Value).String()))
					}
					return &simrtViolation{Clause: "linearizable-with-program-order", Detail: fmt.Sprintf("history of key %q is not linearizable w.r.t. a single Redis server (with per-connection program order): %s", k, strings.Join(hist, "; "))}
				case porcupine.Unknown:
					w.inconclusive = true
				}
			}
			return nil
		})
		return nil
	}
	out := runRedis(t, &sc.RedisScenario, w)
	out.Inconclusive = w.inconclusive
	nreq := 0
	for _, c := range sc.Conns {
		nreq += len(c.Reqs)
	}
	out.Nontrivial = (nreq >= 3 && sc.Env.Masters >= 2) || overlap
	return out
}

func formKey(args [][]byte) string {
	var b bytes.Buffer
	b.WriteString(strings.ToLower(string(args[0])))
	for _, a := range args[1:] {
		fmt.Fprintf(&b, "\x00%d:", len(a))
		b.Write(a)
	}
	return b.String()
}

// forwardedForms: the per-key commands a request turns into at the backends (documented splitting).
func forwardedForms(args [][]byte) []string {
	if len(args) == 0 {
		return nil
	}
	name := strings.ToLower(string(args[0]))
	switch name {
	case "ping", "quit", "select", "info", "time", "hotkey", "scan":
		return nil
	case "mget":
		var out []string
		for _, k := range args[1:] {
			out = append(out, formKey([][]byte{[]byte("get"), k}))
		}
		return out
	case "mset":
		var out []string
		for i := 1; i+1 < len(args); i += 2 {
			out = append(out, formKey([][]byte{[]byte("set"), args[i], args[i+1]}))
		}
		return out
	case "del", "exists", "touch", "unlink":
		var out []string
		for _, k := range args[1:] {
			out = append(out, formKey([][]byte{args[0], k}))
		}
		return out
	}
	if len(args) < 2 || docUnsupported[name] || !redisCommands[name] {
		return nil
	}
	return []string{formKey(args)}
}

func (p c03) Shrink(s harness.Scenario) []harness.Scenario {
	sc := s.(*C03Scenario)
	var out []harness.Scenario
	for _, c := range shrinkRedis(&sc.RedisScenario) {
		ns := &C03Scenario{RedisScenario: *c.(*RedisScenario), Mode: sc.Mode}
		if sc.Mode == "seq" {
			// rebuild a valid global order: keep the relative order of surviving requests (conservative: round-robin)
			next := make([]int, len(ns.Conns))
			for {
				progressed := false
				for ci := range ns.Conns {
					if next[ci] < len(ns.Conns[ci].Reqs) {
						ns.Order = append(ns.Order, [2]int{ci, next[ci]})
						next[ci]++
						progressed = true
					}
				}
				if !progressed {
					break
				}
			}
		}
		out = append(out, ns)
	}
	return out
}

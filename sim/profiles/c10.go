package profiles

import (
	"bytes"
	"fmt"
	"io"
	"strconv"
	"strings"
	"testing"

	redis "github.com/samaritan-proxy/samaritan/proc/redis"

	"verif.local/sim/harness"
	"verif.local/sim/resp2"
	"verif.local/sim/simhook"
	"verif.local/sim/simrt"
	"verif.local/sim/world"
)

// C10 — RESP codec: decode and encode are inverse and independent of chunking.
//
// The stream side is what the simulator contributes: the decoder reads from a simulated transport that returns
// seed-chosen short reads, every single split point is enumerated for short streams, and end-of-stream is injected
// at every offset.  No scheduler is involved: the codec is single-threaded, the "schedule" is the sequence of reads.
type c10 struct{}

func init() { harness.Register(c10{}) }

type C10Scenario struct {
	harness.Meta
	Kind   string      `json:"kind"`             // stream | ints
	Stream []world.Bin `json:"stream,omitempty"` // messages (canonical RESP encodings or inline commands)
	Inline []bool      `json:"inline,omitempty"` // message i is an inline command
	Buf    int         `json:"buf,omitempty"`    // reader buffer size
	Splits []int       `json:"splits,omitempty"` // read sizes (cyclic); empty: enumerate every single split point
	Ints   []string    `json:"ints,omitempty"`
}

func (c10) ID() string              { return "C10" }
func (c10) Empty() harness.Scenario { return &C10Scenario{} }
func (c10) NontrivialRule() string {
	return "a case is non-trivial when the byte stream holds >= 2 messages or a message longer than the reader buffer, or (integers) a spelling outside the plain decimal form; one scenario enumerates every split point of its stream (counted in reach_probes as c10.decodes); distinct = distinct scenarios"
}
func (c10) Components() ([]string, []string) {
	return []string{"redis.codec (decoder, encoder, btoi64, itoa; via verif wrappers)", "redis.bufio.Reader (fill, ReadSlice, ReadBytes, ReadFull, slice allocator)", "redis.resp"},
		[]string{"transport: seed-chosen short reads and injected end-of-stream", "independent RESP codec (resp2) as the oracle", "strconv as the integer oracle"}
}

func genRespValue(r *simhook.Rand, depth int) resp2.Value {
	k := r.Intn(10)
	if depth >= 6 && k >= 8 {
		k = r.Intn(8)
	}
	text := func() []byte {
		n := []int{0, 1, 5, 31, 32, 33, 63, 64, 100, 4095, 4096, 4097, 8192, 9000}[r.Intn(14)]
		if r.Chance(2, 3) {
			n = r.Intn(40)
		}
		b := r.Bytes(n)
		for i := range b {
			if b[i] == '\r' || b[i] == '\n' {
				b[i] = '.'
			}
		}
		return b
	}
	switch k {
	case 0:
		return resp2.Value{Kind: resp2.Simple, Str: text()}
	case 1:
		return resp2.Value{Kind: resp2.Err, Str: text()}
	case 2, 3:
		ints := []int64{0, 1, -1, -128, -129, 32768, 32769, 127, 128, 999999999, 1000000000, -999999999, -1000000000, 1<<63 - 1, -1 << 63, 1 << 32, 9999999999}
		if r.Chance(1, 2) {
			return resp2.I(ints[r.Intn(len(ints))])
		}
		return resp2.I(int64(r.Uint64()))
	case 4:
		return resp2.Nil()
	case 5, 6, 7:
		n := []int{0, 1, 2, 30, 31, 32, 33, 510, 511, 512, 513, 4094, 4095, 4096, 8190, 8192, 8194, 20000}[r.Intn(18)]
		if r.Chance(1, 2) {
			n = r.Intn(64)
		}
		return resp2.B(r.Bytes(n))
	case 8:
		if r.Chance(1, 4) {
			return resp2.NilArray()
		}
		return resp2.Value{Kind: resp2.Array, Arr: []resp2.Value{}}
	default:
		n := 1 + r.Intn(5)
		v := resp2.Value{Kind: resp2.Array}
		for i := 0; i < n; i++ {
			v.Arr = append(v.Arr, genRespValue(r, depth+1))
		}
		return v
	}
}

var intSpellings = []string{"0", "-0", "+0", "00", "007", "+7", "-007", "1", "-1", "127", "128", "-128", "-129", "32767", "32768", "32769", "99999999", "999999999", "1000000000", "-999999999",
	"-1000000000", "9223372036854775807", "9223372036854775808", "-9223372036854775808", "-9223372036854775809", "", "-", "+", "1a", "a1", " 1", "1 ", "1.0", "0x10", "１２", "+-1", "--1",
	"123456789", "1234567890", "12345678901234567890", "000000000", "0000000001", "-000000001", "+000000001"}

func (p c10) Gen(r *simhook.Rand, tier string, idx int) harness.Scenario {
	sc := &C10Scenario{Meta: harness.GenMeta(r, 0)}
	if r.Chance(1, 8) {
		sc.Kind = "ints"
		sc.Class = "ints"
		sc.Ints = append(sc.Ints, intSpellings...)
		for i := 0; i < 400; i++ {
			switch r.Intn(4) {
			case 0:
				sc.Ints = append(sc.Ints, strconv.FormatInt(int64(r.Intn(40000))-200, 10))
			case 1:
				sc.Ints = append(sc.Ints, strconv.FormatInt(int64(r.Uint64()), 10))
			case 2:
				d := 1 + r.Intn(19)
				s := ""
				for k := 0; k < d; k++ {
					s += string(rune('0' + r.Intn(10)))
				}
				sc.Ints = append(sc.Ints, []string{"", "-", "+"}[r.Intn(3)]+s)
			default:
				sc.Ints = append(sc.Ints, string(r.Bytes(1+r.Intn(6))))
			}
		}
		return sc
	}
	sc.Kind = "stream"
	sc.Class = "stream"
	n := 1 + r.Intn(20)
	if r.Chance(1, 2) {
		n = 1 + r.Intn(3)
	}
	if r.Chance(1, 10) {
		// class "long-lived": one decoder sees hundreds of small messages - many of them null arrays, empty arrays and
		// arrays holding null arrays - before ordinary ones; whatever state a decoder keeps between messages (depth
		// counters, buffer windows) must come back to where it was after each of them
		sc.Class = "long-lived"
		for i := 0; i < 40+r.Intn(1200); i++ {
			var m string
			switch r.Intn(6) {
			case 0, 1:
				m = "*-1\r\n"
			case 2:
				m = "*2\r\n*-1\r\n:1\r\n"
			case 3:
				m = "*0\r\n"
			case 4:
				m = ":1\r\n"
			default:
				m = "*1\r\n*1\r\n$-1\r\n"
			}
			sc.Stream = append(sc.Stream, world.Bin(m))
			sc.Inline = append(sc.Inline, false)
		}
	}
	for i := 0; i < n; i++ {
		if r.Chance(1, 8) {
			// inline command: words separated by single or multiple spaces
			words := 1 + r.Intn(4)
			var parts []string
			for w := 0; w < words; w++ {
				b := r.Bytes(1 + r.Intn(8))
				for k := range b {
					b[k] = "abcdefXYZ019_:{}"[int(b[k])%16]
				}
				if w == 0 {
					b[0] = "abcdefXYZ"[int(b[0])%9] // an inline command starts with a letter, not with a RESP type byte
				}
				if w > 0 && r.Chance(1, 3) {
					// the separator of an inline command is the space character and nothing else: arguments may carry
					// any other byte (tabs, form feeds, NUL, bytes that are white space only in some encoding)
					odd := []string{"\t", "\v", "\f", "\x00", "\x85", "\xa0", "\xc2\x85", "\xc2\xa0", "\xe3\x80\x80", "\xe2\x80\xa8", "\xff", "\"", "'"}
					k := r.Intn(len(b) + 1)
					b = append(b[:k:k], append([]byte(odd[r.Intn(len(odd))]), b[k:]...)...)
				}
				parts = append(parts, string(b))
			}
			sep := " "
			if r.Chance(1, 4) {
				sep = "  "
			}
			sc.Stream = append(sc.Stream, world.Bin(strings.Join(parts, sep)+"\r\n"))
			sc.Inline = append(sc.Inline, true)
			continue
		}
		sc.Stream = append(sc.Stream, world.Bin(genRespValue(r, 0).Bytes()))
		sc.Inline = append(sc.Inline, false)
	}
	sc.Buf = []int{32, 33, 64, 4096, 8192}[r.Intn(5)]
	if r.Chance(1, 4) {
		sc.Buf = 32 + r.Intn(600)
	}
	total := 0
	for _, m := range sc.Stream {
		total += len(m)
	}
	if total > 300 || r.Chance(1, 3) {
		for i := 0; i < 1+r.Intn(6); i++ {
			sc.Splits = append(sc.Splits, []int{1, 1, 2, 3, 7, 31, 32, 33, 100, 4096, 5000}[r.Intn(11)])
		}
	}
	return sc
}

// chunkReader serves a byte stream in scripted read sizes; at the end it returns io.EOF (or eofAt cuts it short).
type chunkReader struct {
	data  []byte
	pos   int
	sizes []int
	i     int
	reads int
}

func (c *chunkReader) Read(p []byte) (int, error) {
	if c.pos >= len(c.data) {
		return 0, io.EOF
	}
	n := len(c.data) - c.pos
	if len(c.sizes) > 0 {
		if s := c.sizes[c.i%len(c.sizes)]; s < n {
			n = s
		}
		c.i++
	}
	if n > len(p) {
		n = len(p)
	}
	copy(p, c.data[c.pos:c.pos+n])
	c.pos += n
	c.reads++
	return n, nil
}

func toResp2(v *redis.RespValue) resp2.Value {
	switch v.Type {
	case redis.SimpleString:
		return resp2.Value{Kind: resp2.Simple, Str: v.Text}
	case redis.Error:
		return resp2.Value{Kind: resp2.Err, Str: v.Text}
	case redis.Integer:
		return resp2.I(v.Int)
	case redis.BulkString:
		if v.Text == nil {
			return resp2.Nil()
		}
		return resp2.B(v.Text)
	case redis.Array:
		if v.Array == nil {
			return resp2.NilArray()
		}
		out := resp2.Value{Kind: resp2.Array, Arr: []resp2.Value{}}
		for i := range v.Array {
			out.Arr = append(out.Arr, toResp2(&v.Array[i]))
		}
		return out
	}
	return resp2.Value{}
}

func fromResp2(v resp2.Value) *redis.RespValue {
	switch v.Kind {
	case resp2.Simple:
		return &redis.RespValue{Type: redis.SimpleString, Text: append([]byte{}, v.Str...)}
	case resp2.Err:
		return &redis.RespValue{Type: redis.Error, Text: append([]byte{}, v.Str...)}
	case resp2.Int:
		return &redis.RespValue{Type: redis.Integer, Int: v.Int}
	case resp2.Bulk:
		if v.Null {
			return &redis.RespValue{Type: redis.BulkString}
		}
		return &redis.RespValue{Type: redis.BulkString, Text: append([]byte{}, v.Str...)}
	default:
		if v.Null {
			return &redis.RespValue{Type: redis.Array}
		}
		out := &redis.RespValue{Type: redis.Array, Array: []redis.RespValue{}}
		for _, e := range v.Arr {
			out.Array = append(out.Array, *fromResp2(e))
		}
		return out
	}
}

func inlineToArray(line []byte) resp2.Value {
	s := strings.TrimSuffix(string(line), "\r\n")
	v := resp2.Value{Kind: resp2.Array, Arr: []resp2.Value{}}
	for _, w := range strings.Split(s, " ") {
		if w != "" {
			v.Arr = append(v.Arr, resp2.BS(w))
		}
	}
	return v
}

func (p c10) Run(t *testing.T, s harness.Scenario) harness.Outcome {
	sc := s.(*C10Scenario)
	probes := map[string]int{}
	var v *simrt.Violation
	simrt.Progress.Add(1) // no driver in this profile: tell the worker's watchdog that runs are completing
	h := simhook.HashString(sc.Kind)
	if sc.Kind == "ints" {
		v = p.runInts(sc, probes)
	} else {
		v = p.runStream(sc, probes)
	}
	h = simhook.Mix(h ^ uint64(probes["c10.decodes"]) ^ uint64(probes["c10.ints"])<<20)
	nontrivial := len(sc.Stream) >= 2 || sc.Kind == "ints"
	for _, m := range sc.Stream {
		if len(m) > sc.Buf {
			nontrivial = true
		}
	}
	return harness.Outcome{Res: simrt.Result{Violation: v, Hash: h, Steps: probes["c10.decodes"] + probes["c10.ints"], Probes: probes}, Faults: map[string]int{"short-read": probes["c10.short-reads"], "eof-mid-message": probes["c10.eof-injections"]}, Nontrivial: nontrivial}
}

func (p c10) runInts(sc *C10Scenario, probes map[string]int) *simrt.Violation {
	for _, s := range sc.Ints {
		probes["c10.ints"]++
		got, gerr := redis.VerifBtoi64([]byte(s))
		want, werr := strconv.ParseInt(s, 10, 64)
		if (gerr == nil) != (werr == nil) || (gerr == nil && got != want) {
			return &simrt.Violation{Clause: "integer-text-agrees-with-strconv", Detail: fmt.Sprintf("btoi64(%q) = %d, %v; strconv.ParseInt = %d, %v", s, got, gerr, want, werr)}
		}
		if werr == nil {
			if a := redis.VerifItoa(want); a != strconv.FormatInt(want, 10) {
				return &simrt.Violation{Clause: "integer-text-agrees-with-strconv", Detail: fmt.Sprintf("itoa(%d) = %q", want, a)}
			}
			// through the codec
			enc, err := redis.VerifEncode(&redis.RespValue{Type: redis.Integer, Int: want}, 64)
			if err != nil || string(enc) != ":"+strconv.FormatInt(want, 10)+"\r\n" {
				return &simrt.Violation{Clause: "encode-then-decode-is-identity", Detail: fmt.Sprintf("integer %d encodes to %q (%v)", want, enc, err)}
			}
		}
	}
	return nil
}

func (p c10) runStream(sc *C10Scenario, probes map[string]int) *simrt.Violation {
	var stream []byte
	var want []resp2.Value
	for i, m := range sc.Stream {
		stream = append(stream, m...)
		if sc.Inline[i] {
			want = append(want, inlineToArray(m))
			continue
		}
		v, k, err := resp2.Parse(m)
		if err != nil || k != len(m) {
			return &simrt.Violation{Clause: "harness-build", Detail: fmt.Sprintf("scenario message %d is not canonical RESP: %v", i, err)}
		}
		want = append(want, v)
		// encode . decode = id on canonical bytes, encode(value) = canonical bytes
		enc, eerr := redis.VerifEncode(fromResp2(v), sc.Buf)
		if eerr != nil || !bytes.Equal(enc, m) {
			return &simrt.Violation{Clause: "decode-then-encode-is-identity", Detail: fmt.Sprintf("value %s: canonical encoding is %q, the encoder produced %q (%v)", v.String(), trunc(m, 80), trunc(enc, 80), eerr)}
		}
	}
	decodeAll := func(sizes []int, cut int) (out []resp2.Value, err error, pos int) {
		// a panic of the decoder is its verdict on this input: reported as an error value "decoder panicked: ..."
		defer func() {
			if r := recover(); r != nil {
				err = fmt.Errorf("decoder panicked: %v", r)
			}
		}()
		data := stream
		if cut >= 0 {
			data = stream[:cut]
		}
		cr := &chunkReader{data: data, sizes: sizes}
		d := redis.VerifNewDecoder(cr, sc.Buf)
		for {
			v, err := d.Decode()
			if err != nil {
				probes["c10.short-reads"] += cr.reads
				return out, err, cr.pos
			}
			probes["c10.decodes"]++
			out = append(out, toResp2(v))
			if len(out) > len(want)+2 {
				return out, nil, cr.pos
			}
		}
	}
	check := func(what string, sizes []int) *simrt.Violation {
		got, err, _ := decodeAll(sizes, -1)
		if err != io.EOF {
			return &simrt.Violation{Clause: "concatenation-decodes-in-order", Detail: fmt.Sprintf("%s, reader buffer %d: decoding stopped with %v after %d of %d messages; stream %q", what, sc.Buf, err, len(got), len(want), trunc(stream, 120))}
		}
		if len(got) != len(want) {
			return &simrt.Violation{Clause: "concatenation-decodes-in-order", Detail: fmt.Sprintf("%s, reader buffer %d: %d messages decoded, %d were sent; stream %q", what, sc.Buf, len(got), len(want), trunc(stream, 120))}
		}
		for i := range want {
			if !got[i].Equal(want[i]) {
				return &simrt.Violation{Clause: "concatenation-decodes-in-order", Detail: fmt.Sprintf("%s, reader buffer %d: message %d decoded as %s, sent %s", what, sc.Buf, i, got[i].String(), want[i].String())}
			}
		}
		return nil
	}
	if v := check("one read", nil); v != nil {
		return v
	}
	if len(sc.Splits) > 0 {
		if v := check(fmt.Sprintf("reads of %v bytes", sc.Splits), sc.Splits); v != nil {
			return v
		}
		if v := check("1-byte reads", []int{1}); v != nil {
			return v
		}
	} else {
		// every single split point
		for i := 1; i < len(stream); i++ {
			if v := check(fmt.Sprintf("stream split after byte %d", i), []int{i, len(stream)}); v != nil {
				return v
			}
		}
		if v := check("1-byte reads", []int{1}); v != nil {
			return v
		}
	}
	// end-of-stream at every offset: never a value that was not completely sent
	bounds := []int{0}
	for _, m := range sc.Stream {
		bounds = append(bounds, bounds[len(bounds)-1]+len(m))
	}
	step := 1
	if len(stream) > 400 {
		step = len(stream)/200 + 1
	}
	for cut := 0; cut < len(stream); cut += step {
		probes["c10.eof-injections"]++
		got, err, _ := decodeAll(sc.Splits, cut)
		if err != nil && strings.HasPrefix(err.Error(), "decoder panicked") {
			return &simrt.Violation{Clause: "eof-mid-message-is-an-error", Detail: fmt.Sprintf("stream cut at byte %d, reader buffer %d: %v; stream %q", cut, sc.Buf, err, trunc(stream, 120))}
		}
		complete := 0
		for complete+1 < len(bounds) && bounds[complete+1] <= cut {
			complete++
		}
		if err == nil {
			return &simrt.Violation{Clause: "eof-mid-message-is-an-error", Detail: fmt.Sprintf("stream cut at byte %d: decoding did not stop", cut)}
		}
		if len(got) > complete {
			return &simrt.Violation{Clause: "eof-mid-message-is-an-error", Detail: fmt.Sprintf("stream cut at byte %d (inside message %d): %d values were returned, only %d messages were complete; last: %s", cut, complete, len(got), complete, got[len(got)-1].String())}
		}
		for i := range got {
			if !got[i].Equal(want[i]) {
				return &simrt.Violation{Clause: "concatenation-decodes-in-order", Detail: fmt.Sprintf("stream cut at byte %d: message %d decoded as %s, sent %s", cut, i, got[i].String(), want[i].String())}
			}
		}
	}
	return nil
}

func (p c10) Shrink(s harness.Scenario) []harness.Scenario {
	sc := s.(*C10Scenario)
	var out []harness.Scenario
	cp := func() *C10Scenario {
		c := *sc
		c.Stream = append([]world.Bin(nil), sc.Stream...)
		c.Inline = append([]bool(nil), sc.Inline...)
		c.Ints = append([]string(nil), sc.Ints...)
		c.Splits = append([]int(nil), sc.Splits...)
		return &c
	}
	for i := range sc.Stream {
		if len(sc.Stream) > 1 {
			c := cp()
			c.Stream = append(c.Stream[:i:i], c.Stream[i+1:]...)
			c.Inline = append(c.Inline[:i:i], c.Inline[i+1:]...)
			out = append(out, c)
		}
	}
	if n := len(sc.Ints); n > 1 {
		c := cp()
		c.Ints = c.Ints[:n/2]
		out = append(out, c)
		c = cp()
		c.Ints = c.Ints[n/2:]
		out = append(out, c)
	}
	if len(sc.Splits) > 1 {
		c := cp()
		c.Splits = c.Splits[:1]
		out = append(out, c)
	}
	return out
}

package profiles

import (
	"bytes"
	"fmt"
	"os"
	"runtime"
	"strings"
	"testing"
	"time"

	"verif.local/sim/cluster"
	"verif.local/sim/harness"
	"verif.local/sim/resp2"
	"verif.local/sim/simhook"
	"verif.local/sim/simnet"
	"verif.local/sim/world"
)

// C11 — no byte sequence from a client or a backend can crash or wedge the proxy.
type c11 struct{}

func init() { harness.Register(c11{}) }

// Payload describes adversarial bytes compactly (deeply nested frames are not stored verbatim).
type Payload struct {
	Raw   world.Bin `json:"raw,omitempty"`
	Nest  int       `json:"nest,omitempty"`  // Nest x Unit (default "*1\r\n") followed by Raw
	Unit  string    `json:"unit,omitempty"`  // one nesting level, e.g. "*2\r\n*-1\r\n": a null array, then the next level
	Blank int       `json:"blank,omitempty"` // Blank x "\r\n" (empty inline lines) first
	Pre   int       `json:"pre,omitempty"`   // Pre x "*-1\r\n" (complete null-array frames) before everything else
	Fill  int       `json:"fill,omitempty"`  // Fill x 'a' appended after Raw (long inline lines / big bulk bodies)
	Tail  world.Bin `json:"tail,omitempty"`  // appended last
	Close bool      `json:"close,omitempty"` // client adversary: close after sending
	Split []int     `json:"split,omitempty"` // client adversary: send in chunks cut at these offsets
}

func (p Payload) Bytes() []byte {
	var b bytes.Buffer
	for i := 0; i < p.Blank; i++ {
		b.WriteString("\r\n")
	}
	for i := 0; i < p.Pre; i++ {
		b.WriteString("*-1\r\n")
	}
	unit := p.Unit
	if unit == "" {
		unit = "*1\r\n"
	}
	for i := 0; i < p.Nest; i++ {
		b.WriteString(unit)
	}
	b.Write(p.Raw)
	for i := 0; i < p.Fill; i++ {
		b.WriteByte('a')
	}
	b.Write(p.Tail)
	return b.Bytes()
}

// Corrupt: the n-th reply of a node to a command with the given (lower-case) name is replaced.
type Corrupt struct {
	Node  int     `json:"node"`
	Match string  `json:"match"`
	Nth   int     `json:"nth"`
	With  Payload `json:"with"`
	// Repeat > 1: this many replies in a row are replaced, starting with the Nth (then the node is honest again)
	Repeat int `json:"repeat,omitempty"`
	// SelfMoved: the replacement is a well-formed "-MOVED <slot of the key> <this node's own address>"
	SelfMoved bool `json:"self_moved,omitempty"`
}

type C11Scenario struct {
	RedisScenario
	Adversaries []Payload `json:"adversaries,omitempty"` // one downstream connection each
	Corrupt     []Corrupt `json:"corrupt,omitempty"`
	AdvAfter    int       `json:"adv_after,omitempty"` // steps after the first canary byte
}

func (c11) ID() string              { return "C11" }
func (c11) Empty() harness.Scenario { return &C11Scenario{} }
func (c11) NontrivialRule() string {
	return "a run is non-trivial when at least one adversarial byte stream was fully delivered to the proxy (from a client, or as a backend's reply to a request of the proxy) and the canary's second round was issued afterwards; distinct = distinct (scenario, execution-hash) pairs"
}
func (c11) Components() ([]string, []string) {
	return []string{"redis.codec + bufio (decoder)", "redis.session", "redis.handler", "redis.upstream (redirection parsing, CLUSTER NODES parsing, SCAN cursor rewriting)", "redis.client", "proc.listener"},
		[]string{"network (simnet)", "adversarial clients", "adversarial backend replies (cluster.ReplyHook)", "canary client"}
}

var clientGarbage = []string{
	"$999999999999\r\n", "$-5\r\n", "*-3\r\n", "*99999999999\r\n", "$536870913\r\n", "*1048577\r\n", "$9223372036854775807\r\n",
	"$3\r\nabcXY", "+OK\n", "*1\r\n$3\r\nabc\rX", "*2\r\n$3\r\nGET\r\n$-1\r\n", "*2\r\n$3\r\nGET\r\n*1\r\n$1\r\nk\r\n", "*1\r\n$4\r\nPING\r\n\r\n",
	":12\r\n", "-ERR x\r\n", "+hello\r\n", "$-1\r\n", "*-1\r\n", "*0\r\n", "\r\n", " \r\n", "\x00\x01\x02\r\n", "*1\r\n$0\r\n\r\n", "*1\r\n$3\r\n\r\n\x00\r\n",
	"*3\r\n$3\r\nSET\r\n$1\r\nk\r\n$2\r\nv\r\n", "*2\r\n$4\r\nSCAN\r\n$20\r\n18446744073709551615\r\n", "*2\r\n$4\r\nSCAN\r\n$2\r\n-1\r\n", "*2\r\n$4\r\nSCAN\r\n$3\r\nabc\r\n",
	"*2\r\n$4\r\nSCAN\r\n$19\r\n9223372036854775807\r\n", "*4\r\n$4\r\nEVAL\r\n$1\r\nx\r\n$1\r\n0\r\n", "*1\r\n$+3\r\nabc\r\n", "*01\r\n$4\r\nPING\r\n", "*1\r\n$04\r\nPING\r\n",
	// well-formed requests whose key has braces in unusual places (the part of the key that is hashed is cut out of it)
	"*2\r\n$3\r\nGET\r\n$6\r\na}b{c}\r\n", "*2\r\n$3\r\nGET\r\n$2\r\n}{\r\n", "GET }{\r\n", "*2\r\n$3\r\nDEL\r\n$1\r\n{\r\n", "*2\r\n$3\r\nGET\r\n$3\r\n}a{\r\n",
	"*3\r\n$4\r\nMGET\r\n$4\r\n}}{{\r\n$2\r\n{}\r\n", "*2\r\n$3\r\nGET\r\n$0\r\n\r\n", "*5\r\n$4\r\nEVAL\r\n$8\r\nreturn 1\r\n$1\r\n1\r\n$4\r\n}x{y\r\n$1\r\na\r\n",
	"GET\tk\r\n", "get k\n", "*2\r\n$3\r\nGET\r\n$1\r\n", "$", "*", "*1", "*1\r", "*1\r\n$", "*1\r\n$4\r\nPI",
}

// genNestShape varies what one nesting level looks like: siblings that are null arrays, null bulks or integers
// before the nested element, and complete null-array frames ahead of the nested frame (a decoder that keeps a
// per-connection depth counter must come out of every frame, and every element, with the counter it went in with).
func genNestShape(r *simhook.Rand, p *Payload, client bool) {
	k := r.Intn(5)
	if k == 2 && !client {
		// a backend that sends frames nobody asked for shifts every later reply on that connection: not the proxy's doing
		k = 0
	}
	switch k {
	case 0:
		p.Unit = "*2\r\n*-1\r\n"
	case 1:
		p.Unit = []string{"*2\r\n$-1\r\n", "*2\r\n:7\r\n", "*3\r\n*0\r\n*-1\r\n"}[r.Intn(3)]
	case 2:
		p.Pre = []int{1, 31, 33, 5000, 200000}[r.Intn(5)]
	}
}

func genClientAdversary(r *simhook.Rand) Payload {
	var p Payload
	if r.Chance(1, 14) {
		// very many empty lines ahead of a request (a decoder that skips them must do so in constant stack)
		p.Blank = []int{1, 2, 1000, 300000, 2000000}[r.Intn(5)]
		p.Raw = world.Bin(resp2.CmdS("PING"))
		return p
	}
	switch r.Intn(12) {
	case 0: // deep nesting
		p.Nest = []int{2, 9, 33, 100, 1000, 10000, 100000, 1000000}[r.Intn(8)]
		p.Raw = world.Bin(":1\r\n")
		genNestShape(r, &p, true)
	case 1: // very long inline line
		p.Raw = world.Bin("GET ")
		p.Fill = []int{4095, 4096, 4097, 65536, 1 << 20}[r.Intn(5)]
		p.Tail = world.Bin("\r\n")
	case 2: // big declared bulk, body then garbage terminator
		n := []int{511, 512, 8191, 8192, 70000, 1 << 20}[r.Intn(6)]
		p.Raw = world.Bin(fmt.Sprintf("*2\r\n$3\r\nGET\r\n$%d\r\n", n))
		p.Fill = n
		p.Tail = world.Bin([]string{"\r\n", "XX", "\r", ""}[r.Intn(4)])
	case 3: // random binary
		p.Raw = world.Bin(r.Bytes(1 + r.Intn(200)))
	case 4: // valid request followed by garbage
		p.Raw = world.Bin(string(resp2.CmdS("PING")) + clientGarbage[r.Intn(len(clientGarbage))])
	default:
		p.Raw = world.Bin(clientGarbage[r.Intn(len(clientGarbage))])
		if r.Chance(1, 4) {
			p.Raw = append(p.Raw, world.Bin(clientGarbage[r.Intn(len(clientGarbage))])...)
		}
	}
	p.Close = r.Chance(2, 3)
	b := len(p.Bytes())
	if b > 1 && b < 200 && r.Chance(1, 3) {
		p.Split = cutPoints(r, b)
	}
	return p
}

var backendGarbage = map[string][]string{
	"*": {
		"-MOVED 1\r\n", "-MOVED\r\n", "-MOVED \r\n", "-MOVED  \r\n", "-ASK 1\r\n", "-ASK 1 \r\n", "-moved 12 \r\n", "-MOVED 1 nohost\r\n", "-MOVED 1 10.0.0.1:70000\r\n",
		"-MOVED x y z w\r\n", "-ASK 99999 :\r\n", "-MOVED 1 :7000\r\n", "-CLUSTERDOWN\r\n", "-CLUSTERDOWN \r\n", "-clusterdown x\r\n", "-\r\n", "- \r\n", "-ERR\r\n",
		// letters that only Unicode case folding maps to S and K (U+017F, U+212A), mixed case, odd spacing
		"-A\u017fk 1 10.0.0.1:7000\r\n", "-AS\u212a 1 10.0.0.1:7000\r\n", "-a\u017f\u212a 2 10.0.0.2:7000\r\n", "-AsK 1 10.0.0.1:7000\r\n", "-Moved 1 10.0.0.1:7000\r\n", "-CLU\u017fTERDOWN x\r\n",
		"-MOVED -1 10.0.0.1:7000\r\n", "-MOVED -16384 10.0.0.2:7000\r\n", "-ASK -1 10.0.0.1:7000\r\n", "-MOVED -9223372036854775808 10.0.0.1:7000\r\n", "-MOVED 16384 10.0.0.1:7000\r\n",
		"-MOVED 99999999999999999999 10.0.0.2:7000\r\n", "-MOVED +5 10.0.0.1:7000\r\n", "-MOVED 0x10 10.0.0.1:7000\r\n", "-ASK 1.5 10.0.0.2:7000\r\n",
		"-MOVED 1 10.0.0.1:7000 extra words\r\n", "-ASK  1  10.0.0.1:7000\r\n", "-MOVED\t1\t10.0.0.1:7000\r\n",
		"$-1\r\n", "*-1\r\n", "*0\r\n", ":x\r\n", "$abc\r\n", "$5\r\nab\r\n", "+OK\n", "?what\r\n", "*2\r\n$1\r\na\r\n", "$536870913\r\n", "*1048577\r\n",
	},
	"scan": {
		"*0\r\n", "*1\r\n$1\r\n0\r\n", "*2\r\n$1\r\nx\r\n*0\r\n", "*2\r\n$-1\r\n*0\r\n", "*2\r\n*0\r\n*0\r\n", "*2\r\n:5\r\n*0\r\n", "$1\r\n0\r\n", "*2\r\n$20\r\n99999999999999999999\r\n*0\r\n",
		"*2\r\n$2\r\n-1\r\n*1\r\n$1\r\nk\r\n", "*3\r\n$1\r\n0\r\n*0\r\n*0\r\n", "*-1\r\n", ":0\r\n",
	},
	"cluster": nil, // generated
}

func genClusterNodesGarbage(r *simhook.Rand) string {
	id := func(i int) string { return fmt.Sprintf("%040x", 0xabc0+i) }
	lines := []string{
		id(1) + " 10.0.0.1:7000@17000 master - 0 0 1 connected 0-16383",
		id(1) + " 10.0.0.1:7000@17000 master - 0 0 1 connected",
		id(1) + " 10.0.0.1:7000 master - 0 0 1 connected 0-5 7 [9->-" + id(2) + "]",
		id(2) + " 10.0.0.2:7000@17000 slave " + id(9) + " 0 0 1 connected",
		id(2) + " 10.0.0.2:7000@17000 slave - 0 0 1 connected",
		id(3) + " 10.0.0.1:7000@17000 master - 0 0 1",
		id(3) + " 10.0.0.1 master - 0 0 1 connected 0-100",
		id(3) + " :7000@1 master - 0 0 1 connected 5-1",
		id(3) + " 10.0.0.1:7000@1 master - 0 0 1 connected -5-3",
		id(3) + " 10.0.0.1:7000@1 master - 0 0 1 connected 16380-16400",
		id(3) + " 10.0.0.1:7000@1 master - 0 0 1 connected 0-20000000",
		id(3) + " 10.0.0.1:7000@1 master - 0 0 1 connected abc",
		id(3) + " 10.0.0.1:7000@1 master - 0 0 1 connected 1-2-3",
		id(3) + " 10.0.0.1:7000@1 master - 0 0 1 connected -1",
		id(3) + " 10.0.0.1:7000@1 master - 0 0 1 connected 99999999999999999999",
		id(3) + " 10.0.0.1:7000@1 myself,master - 0 0 1 connected [",
		id(1) + " 10.0.0.1:7000@17000 master - 0 0 1 connected 0-16383",
		"", " ", "x", "a b c d e f g h", "a b:1 c - e f g h i",
	}
	// slot numbers around every boundary, as single slots and in ranges
	edge := []string{"0", "1", "16382", "16383", "16384", "16385", "32767", "32768", "65535", "65536", "2147483647", "2147483648", "4294967296", "9223372036854775807"}
	for i := 0; i < 6; i++ {
		a, b := edge[r.Intn(len(edge))], edge[r.Intn(len(edge))]
		switch r.Intn(3) {
		case 0:
			lines = append(lines, id(4)+" 10.0.0.1:7000@17000 master - 0 0 1 connected "+a)
		case 1:
			lines = append(lines, id(4)+" 10.0.0.1:7000@17000 master - 0 0 1 connected 5 "+a+" 7")
		default:
			if len(a) < 7 && len(b) < 7 {
				lines = append(lines, id(4)+" 10.0.0.1:7000@17000 master - 0 0 1 connected "+a+"-"+b)
			}
		}
	}
	n := 1 + r.Intn(4)
	var sb strings.Builder
	for i := 0; i < n; i++ {
		sb.WriteString(lines[r.Intn(len(lines))])
		sb.WriteString([]string{"\n", "\n", "\r\n", ""}[r.Intn(4)])
	}
	s := sb.String()
	switch r.Intn(6) {
	case 0:
		return "+" + strings.ReplaceAll(strings.ReplaceAll(s, "\r", ""), "\n", " ") + "\r\n"
	case 1:
		return "*1\r\n" + string(resp2.BS(s).Bytes())
	default:
		return string(resp2.BS(s).Bytes())
	}
}

func genCorrupt(r *simhook.Rand, nodes int) Corrupt {
	c := Corrupt{Node: r.Intn(nodes), Nth: 1 + r.Intn(3)}
	switch r.Intn(10) {
	case 0, 1:
		c.Match = "cluster"
		c.Nth = 1 + r.Intn(2)
		c.With.Raw = world.Bin(genClusterNodesGarbage(r))
	case 2:
		c.Match = "scan"
		g := backendGarbage["scan"]
		c.With.Raw = world.Bin(g[r.Intn(len(g))])
	case 3:
		c.Match = []string{"readonly", "asking", "get", "cluster"}[r.Intn(4)]
		c.With.Nest = []int{3, 40, 1000, 100000, 1000000}[r.Intn(5)]
		c.With.Raw = world.Bin(":1\r\n")
		genNestShape(r, &c.With, false)
	default:
		c.Match = []string{"get", "set", "readonly", "cluster", "del", "scan", "asking"}[r.Intn(7)]
		g := backendGarbage["*"]
		c.With.Raw = world.Bin(g[r.Intn(len(g))])
	}
	return c
}

func (p c11) Gen(r *simhook.Rand, tier string, idx int) harness.Scenario {
	sc := &C11Scenario{}
	sc.Meta = harness.GenMeta(r, 0)
	sc.Env = world.RedisCfg{Masters: 2 + r.Intn(2)}
	if r.Chance(1, 3) {
		sc.Env.FragNum, sc.Env.FragDen = 1, 2
	}
	m := sc.Env.Masters
	keys := keysForNodes(r, m, "cn", 2)
	var all []string
	for n := range keys {
		for i, k := range keys[n] {
			all = append(all, k)
			sc.Env.Preload = append(sc.Env.Preload, world.KV{K: world.Bin(k), V: world.Bin(uniqueVal("pre", n*10+i, 12))})
		}
	}
	if r.Chance(1, 3) {
		// compression on: a command that is refused in compress mode is answered by a filter of the backend writer,
		// right where a corrupted backend connection is being torn down
		sc.Env.Compression = &world.Compression{Enable: true, Threshold: 64}
	}
	canary := ConnScript{Name: "canary"}
	for i := 0; i < 3+r.Intn(8); i++ {
		k := r.Intn(4)
		if sc.Env.Compression != nil && r.Chance(1, 2) {
			k = 1
		}
		switch k {
		case 1:
			canary.Reqs = append(canary.Reqs, world.Request{Args: world.Bins("GET", all[r.Intn(len(all))])})
			canary.Reqs = append(canary.Reqs, world.Request{Args: world.Bins("SETBIT", "junk:"+all[r.Intn(len(all))], "7", "1")})
		case 0:
			canary.Reqs = append(canary.Reqs, world.Request{Args: world.Bins("SCAN", "0"), Wait: true})
		default:
			canary.Reqs = append(canary.Reqs, world.Request{Args: world.Bins("GET", all[r.Intn(len(all))]), Wait: r.Chance(1, 2)})
		}
	}
	sc.Conns = []ConnScript{canary}
	if r.Chance(1, 3) {
		sc.Conns[0].Early = true
	}
	sc.AdvAfter = r.Intn(120)
	if r.Chance(1, 250) || os.Getenv("VERIF_FORCE_CLASS") == "self-moved-flood" { // (the variable is a development aid: aim a whole tier at one class)
		// class "self-moved-flood": a node answers a run of keyed reads with a redirection that names the node itself
		// while a very wide MGET keeps more requests in flight on its connection than its two 1024-entry queues hold;
		// afterwards the node is honest.  The redirections are well-formed, so nothing may stay stuck once they stop.
		sc.Class = "self-moved-flood"
		sc.Env.Compression = nil
		tag := fmt.Sprintf("{sm%d}", r.Intn(50))
		node := cluster.Slot([]byte(tag)) / (cluster.NumSlots / m)
		if node >= m {
			node = m - 1
		}
		n := 2060 + r.Intn(400)
		a := world.Bins("MGET")
		for i := 0; i < n; i++ {
			a = append(a, world.Bin(fmt.Sprintf("%s%d", tag, i)))
		}
		sc.Conns = []ConnScript{{Name: "flood", Reqs: []world.Request{{Args: a}}}, canary}
		sc.Corrupt = []Corrupt{{Node: node, Match: "get", Nth: 1 + r.Intn(1200), Repeat: 1 + r.Intn(3000), SelfMoved: true}}
		pr := ConnScript{Name: "p-canary"}
		for _, k := range all {
			pr.Reqs = append(pr.Reqs, world.Request{Args: world.Bins("GET", k), Wait: true})
		}
		sc.Probes = []ConnScript{pr}
		sc.IdleFaults = true
		return sc
	}
	switch r.Intn(3) {
	case 0:
		sc.Class = "client"
		for i := 0; i < 1+r.Intn(3); i++ {
			sc.Adversaries = append(sc.Adversaries, genClientAdversary(r))
		}
	case 1:
		sc.Class = "backend"
		for i := 0; i < 1+r.Intn(2); i++ {
			sc.Corrupt = append(sc.Corrupt, genCorrupt(r, m))
		}
	default:
		sc.Class = "both"
		sc.Adversaries = append(sc.Adversaries, genClientAdversary(r))
		sc.Corrupt = append(sc.Corrupt, genCorrupt(r, m))
	}
	if sc.Env.Compression != nil && len(sc.Corrupt) > 0 && r.Chance(3, 4) {
		// aim the corruption at a pipelined canary: the backend connection is torn down by the reader while the
		// writer still holds requests, one of them answered by the compression filter
		for i := range sc.Conns[0].Reqs {
			sc.Conns[0].Reqs[i].Wait = false
		}
		sc.Corrupt[0].Match, sc.Corrupt[0].Nth = "get", 1
	} else if sc.Env.Compression != nil && len(sc.Corrupt) > 0 {
		// a stored value that begins like a compressed one and is not: shorter than the header, unknown algorithm,
		// empty or broken stream, also nested in an array (the decompression hook of reads looks at it)
		g := []string{"$3\r\n(P$\r\n", "+(P$\r\n", "$4\r\n(P$\x00\r\n", "$5\r\n(P$\x00\r\r\n", "$6\r\n(P$\x00\r\n\r\n", "$6\r\n(P$\x09\r\n\r\n",
			"$10\r\n(P$\x00\r\n\xff\xff\xff\xff\r\n", "$16\r\n(P$\x00\r\n\xff\x06\x00\x00sNaPpY\r\n", "*1\r\n$3\r\n(P$\r\n", "*2\r\n$1\r\n0\r\n*1\r\n$4\r\n(P$\x00\r\n", "$2\r\n(P\r\n", "$1\r\n(\r\n"}
		sc.Corrupt[0] = Corrupt{Node: sc.Corrupt[0].Node, Match: "get", Nth: 1 + r.Intn(2)}
		sc.Corrupt[0].With.Raw = world.Bin(g[r.Intn(len(g))])
	}
	// the canary's second round, after the adversaries are done and turned honest
	pr := ConnScript{Name: "p-canary"}
	for _, k := range all {
		pr.Reqs = append(pr.Reqs, world.Request{Args: world.Bins("GET", k), Wait: true})
	}
	sc.Probes = []ConnScript{pr}
	sc.SettleMs = []int{0, 7000, 130000}[r.Intn(3)]
	sc.IdleFaults = true
	return sc
}

type advConn struct {
	p      Payload
	end    *simnet.End
	chunks [][]byte
	done   bool
	eof    bool
	got    []byte
}

func (p c11) Run(t *testing.T, s harness.Scenario) harness.Outcome {
	sc := s.(*C11Scenario)
	w := newRedisWorld(&sc.RedisScenario)
	var advs []*advConn
	started := false
	delivered := 0
	var lastAlloc uint64
	var maxDelta uint64
	sample := func() {
		var ms runtime.MemStats
		runtime.ReadMemStats(&ms)
		if lastAlloc != 0 && ms.TotalAlloc-lastAlloc > maxDelta {
			maxDelta = ms.TotalAlloc - lastAlloc
		}
		lastAlloc = ms.TotalAlloc
	}
	corruptLeft := len(sc.Corrupt)
	honest := false // from the canary's second round on every adversary is honest
	w.onProbeStart = func() { honest = true }
	w.step = func(w *redisWorld) *simrtViolation {
		if !started && w.env.Started {
			started = true
			// backend adversaries: installed from the start so that also the very first CLUSTER NODES / READONLY can be hit
			counts := map[int]map[string]int{}
			for ci := range sc.Corrupt {
				c := sc.Corrupt[ci]
				if c.Node >= len(w.env.Cluster.Nodes) {
					corruptLeft--
					continue
				}
				n := w.env.Cluster.Nodes[c.Node]
				if counts[c.Node] == nil {
					counts[c.Node] = map[string]int{}
				}
				prev := n.ReplyHook
				fired := false
				left := c.Repeat
				n.ReplyHook = func(nc *cluster.Conn, args [][]byte, reply []byte) ([]byte, bool) {
					name := strings.ToLower(string(args[0]))
					if !fired && !honest && name == c.Match {
						counts[c.Node][c.Match+fmt.Sprint(ci)]++
						if c.SelfMoved && len(args) > 1 && counts[c.Node][c.Match+fmt.Sprint(ci)] >= c.Nth {
							if left == c.Repeat {
								corruptLeft--
								delivered++
							}
							left--
							fired = left <= 0
							w.faultsFired["self-moved"]++
							w.lastFault = time.Now()
							return []byte(fmt.Sprintf("-MOVED %d %s\r\n", cluster.Slot(args[1]), n.Addr)), true
						}
						if !c.SelfMoved && counts[c.Node][c.Match+fmt.Sprint(ci)] == c.Nth {
							fired = true // the adversary turns honest afterwards
							corruptLeft--
							delivered++
							w.faultsFired["corrupt-frame:"+c.Match]++
							w.lastFault = time.Now()
							w.rt.Logf("CORRUPT reply of node %d to %s", c.Node, name)
							sample()
							out := c.With.Bytes()
							if _, k, err := resp2.Parse(out); err != nil || k != len(out) {
								// not exactly one well-formed frame: the adversary finishes by closing the connection
								// (a truncated frame followed by silence would be a slow peer, an extra frame would
								// shift every later reply by one - neither is something the proxy can be blamed for)
								end := nc.End
								w.rt.AddEvent(fmt.Sprintf("adv-backend-close:%d#%d", c.Node, ci), func() { end.ActorClose() })
							}
							return out, true
						}
					}
					if prev != nil {
						return prev(nc, args, reply)
					}
					return nil, false
				}
			}
		}
		// client adversaries start a little after the canary
		if len(advs) == 0 && len(sc.Adversaries) > 0 && w.firstSend >= 0 && w.rt.Step-w.firstSend >= int64(sc.AdvAfter) {
			for i, ap := range sc.Adversaries {
				a := &advConn{p: ap}
				e, err := w.env.Net.Connect(world.ProxyAddr, fmt.Sprintf("adv%d", i))
				if err != nil {
					a.done = true
					advs = append(advs, a)
					continue
				}
				a.end = e
				e.OnData = func(e *simnet.End) { a.got = append(a.got, e.Take()...) }
				e.OnEOF = func(e *simnet.End) { a.eof = true }
				e.OnReset = func(e *simnet.End) { a.eof = true }
				b := ap.Bytes()
				prev := 0
				for _, k := range ap.Split {
					if k > prev && k < len(b) {
						a.chunks = append(a.chunks, b[prev:k])
						prev = k
					}
				}
				a.chunks = append(a.chunks, b[prev:])
				advs = append(advs, a)
				var next func(k int)
				idx := i
				next = func(k int) {
					w.rt.AddEvent(fmt.Sprintf("adv:%d:send#%04d", idx, k), func() {
						sample()
						a.end.Send(a.chunks[k])
						w.lastFault = time.Now()
						if k+1 < len(a.chunks) {
							next(k + 1)
							return
						}
						delivered++
						w.faultsFired["client-garbage"]++
						if a.p.Close {
							a.end.ActorClose()
						}
						a.done = true
					})
				}
				next(0)
			}
		}
		if w.rt.Step%64 == 0 {
			sample()
		}
		return nil
	}
	// all adversaries must have acted (or be unable to) before the probe round
	extraPending := func() bool {
		if len(sc.Adversaries) > 0 && len(advs) == 0 {
			return true
		}
		for _, a := range advs {
			if !a.done {
				return true
			}
		}
		return false
	}
	w.holdProbes = extraPending
	w.fin = func(w *redisWorld) *simrtViolation {
		sample()
		if maxDelta > 400<<20 {
			return &simrtViolation{Clause: "memory-bounded", Detail: fmt.Sprintf("%d MiB were allocated around one adversarial message", maxDelta>>20)}
		}
		// the canary: everything it was sent back must be right (errors are admitted for requests that were in
		// flight through a backend connection the adversary corrupted, i.e. first-round requests only)
		want := map[string]string{}
		for _, kv := range sc.Env.Preload {
			want[string(kv.K)] = string(kv.V)
		}
		for _, c := range w.env.Clients {
			second := strings.HasPrefix(c.Name, "p-")
			for _, sn := range c.Sent {
				if !sn.Answered {
					continue
				}
				args := c.Script[sn.Idx].Args
				if string(args[0]) != "GET" {
					continue
				}
				if sn.Reply.IsErr() {
					if second {
						return &simrtViolation{Clause: "canary-served-afterwards", Detail: fmt.Sprintf("after the adversaries stopped (settle %dms), canary GET %q got %s", sc.SettleMs, args[1], sn.Reply.String())}
					}
					continue
				}
				if sn.Reply.Null || string(sn.Reply.Str) != want[string(args[1])] {
					if len(sc.Corrupt) > 0 && !second {
						continue // a backend that lies can make a first-round reply wrong; that is the backend's doing
					}
					return &simrtViolation{Clause: "canary-served-correctly", Detail: fmt.Sprintf("canary GET %q got %s, stored value is %q", args[1], sn.Reply.String(), want[string(args[1])])}
				}
			}
		}
		// a complete but invalid client frame is answered with an error or the connection is closed
		for i, a := range advs {
			if a.end == nil || a.p.Close {
				continue
			}
			_ = i
		}
		return nil
	}
	out := runRedis(t, &sc.RedisScenario, w)
	out.Nontrivial = delivered > 0 && w.probeRound >= 1
	return out
}

func (p c11) Shrink(s harness.Scenario) []harness.Scenario {
	sc := s.(*C11Scenario)
	var out []harness.Scenario
	mk := func(f func(c *C11Scenario)) {
		c := &C11Scenario{RedisScenario: *cloneRedis(&sc.RedisScenario), Adversaries: append([]Payload(nil), sc.Adversaries...), Corrupt: append([]Corrupt(nil), sc.Corrupt...), AdvAfter: sc.AdvAfter}
		f(c)
		out = append(out, c)
	}
	for i := range sc.Adversaries {
		i := i
		mk(func(c *C11Scenario) { c.Adversaries = append(c.Adversaries[:i:i], c.Adversaries[i+1:]...) })
		if sc.Adversaries[i].Nest > 40 {
			mk(func(c *C11Scenario) { c.Adversaries[i].Nest /= 2 })
		}
		if sc.Adversaries[i].Fill > 64 {
			mk(func(c *C11Scenario) { c.Adversaries[i].Fill /= 2 })
		}
		if len(sc.Adversaries[i].Split) > 0 {
			mk(func(c *C11Scenario) { c.Adversaries[i].Split = nil })
		}
	}
	for i := range sc.Corrupt {
		i := i
		mk(func(c *C11Scenario) { c.Corrupt = append(c.Corrupt[:i:i], c.Corrupt[i+1:]...) })
		if sc.Corrupt[i].With.Nest > 40 {
			mk(func(c *C11Scenario) { c.Corrupt[i].With.Nest /= 2 })
		}
		if sc.Corrupt[i].Nth > 1 {
			mk(func(c *C11Scenario) { c.Corrupt[i].Nth-- })
		}
	}
	for _, c := range shrinkRedis(&sc.RedisScenario) {
		out = append(out, &C11Scenario{RedisScenario: *c.(*RedisScenario), Adversaries: sc.Adversaries, Corrupt: sc.Corrupt, AdvAfter: sc.AdvAfter})
	}
	if sc.AdvAfter > 0 {
		mk(func(c *C11Scenario) { c.AdvAfter = 0 })
	}
	return out
}

package profiles

import (
	"fmt"
	"strings"
	"testing"

	"verif.local/sim/cluster"
	"verif.local/sim/harness"
	"verif.local/sim/refredis"
	"verif.local/sim/resp2"
	"verif.local/sim/simhook"
	"verif.local/sim/world"
)

// C01 — replies come back in request order, exactly one per request.
type c01 struct{}

func init() { harness.Register(c01{}) }

func (c01) ID() string              { return "C01" }
func (c01) Empty() harness.Scenario { return &RedisScenario{} }
func (c01) NontrivialRule() string {
	return "a run is non-trivial when at least one connection pipelined >= 2 requests whose backends could answer in any order (>= 2 outstanding at some step); distinct = distinct (scenario, execution-hash) pairs"
}
func (c01) Components() ([]string, []string) {
	return []string{"proc.listener", "redis.session", "redis.handler", "redis.request (MGET/MSET/DEL splitting)", "redis.upstream", "redis.client", "redis.codec"},
		[]string{"network (simnet)", "Redis cluster nodes (cluster+refredis)", "downstream clients (resp2)"}
}

var sizeEdges = []int{0, 1, 31, 32, 33, 511, 512, 513, 4095, 4096, 4097, 8191, 8192, 8193, 16383, 16384, 16385}

func padVal(conn string, k, n int) []byte {
	s := fmt.Sprintf("v:%s:%d:", conn, k)
	if n <= len(s) {
		return []byte(s)
	}
	b := make([]byte, n)
	copy(b, s)
	for i := len(s); i < n; i++ {
		b[i] = byte('a' + (i*7+k)%26)
	}
	return b
}

var weirdNames = []string{"FOO\r\nBAR", "KEYS", "MULTI", "subscribe", "CLUSTER", "flushall", "BLPOP", "no\x00such", "it's", "say\"hi\"", "X\nY", "Z\r", "\r\n", "EVALSHA", "NOSUCHCMD", "get\r\n+OK"}

var weirdArgs = []string{"7\r\n+OK", "\r\n", "x\ny", "-1", "", "18446744073709551616", "1\r", "abc\r\n-ERR x\r\n", "0 \r\n$-1", "nan"}

// genC01Conn builds one connection's script over its private keys.
func genC01Conn(r *simhook.Rand, name string, nreq int, keys []string) ConnScript {
	cs := ConnScript{Name: name}
	key := func() string { return keys[r.Intn(len(keys))] }
	for k := 0; k < nreq; k++ {
		var req world.Request
		switch x := r.Intn(100); {
		case x < 22:
			req.Args = world.Bins("GET", key())
		case x < 34:
			n := 8 + r.Intn(40)
			if r.Chance(1, 5) {
				n = sizeEdges[r.Intn(len(sizeEdges))]
			}
			req.Args = append(world.Bins("SET", key()), world.Bin(padVal(name, k, n)))
		case x < 44:
			a := world.Bins("MGET")
			for i := 0; i < 1+r.Intn(6); i++ {
				a = append(a, world.Bin(key()))
			}
			req.Args = a
		case x < 50:
			a := world.Bins("MSET")
			for i := 0; i < 1+r.Intn(4); i++ {
				a = append(a, world.Bin(key()), world.Bin(padVal(name, k*10+i, 6+r.Intn(20))))
			}
			req.Args = a
		case x < 56:
			a := world.Bins([]string{"DEL", "EXISTS", "TOUCH", "UNLINK"}[r.Intn(4)])
			for i := 0; i < 1+r.Intn(4); i++ {
				a = append(a, world.Bin(key()))
			}
			req.Args = a
		case x < 60:
			req.Args = append(world.Bins("APPEND", key()), world.Bin(padVal(name, k, 5)))
		case x < 63:
			req.Args = world.Bins("STRLEN", key())
		case x < 66:
			req.Args = world.Bins([]string{"INCR", "DECR"}[r.Intn(2)], key()+":n")
		case x < 70:
			req.Args = append(world.Bins("HSET", key()+":h", fmt.Sprintf("f%d", r.Intn(3))), world.Bin(padVal(name, k, 10)))
		case x < 73:
			req.Args = world.Bins("HGETALL", key()+":h")
		case x < 76:
			req.Args = append(world.Bins("RPUSH", key()+":l"), world.Bin(padVal(name, k, 9)))
		case x < 79:
			req.Args = world.Bins("LRANGE", key()+":l", "0", "-1")
		case x < 81:
			req.Args = world.Bins("TYPE", key())
		case x < 84: // locally answered
			req.Args = world.Bins([]string{"PING", "SELECT", "TIME", "INFO", "HOTKEY", "QUIT"}[r.Intn(6)])
			if strings.EqualFold(string(req.Args[0]), "select") {
				req.Args = append(req.Args, world.Bin("0"))
			}
		case x < 87: // invalid requests
			switch r.Intn(4) {
			case 0:
				req.Raw = world.Bin("*0\r\n")
			case 1:
				req.Raw = world.Bin("*1\r\n:1\r\n")
			case 2:
				req.Raw = world.Bin("*2\r\n$3\r\nGET\r\n+k\r\n")
			default:
				req.Args = world.Bins([]string{"GET", "MGET", "MSET", "DEL", "SET"}[r.Intn(5)])
			}
		case x < 92: // unsupported names, including hostile ones
			if r.Chance(2, 5) {
				// a well-known command with a hostile argument (arguments that the proxy parses itself, or that
				// an error text may echo)
				h := weirdArgs[r.Intn(len(weirdArgs))]
				switch r.Intn(4) {
				case 0:
					req.Args = world.Bins("SCAN", h)
				case 1:
					req.Args = world.Bins("SCAN", h, "MATCH", "x*", "COUNT", "10")
				case 2:
					req.Args = world.Bins("SELECT", h)
				default:
					req.Args = world.Bins("PING", h)
				}
				break
			}
			nm := weirdNames[r.Intn(len(weirdNames))]
			req.Args = world.Bins(nm)
			for i := 0; i < r.Intn(3); i++ {
				req.Args = append(req.Args, world.Bin(key()))
			}
		case x < 95: // inline command
			req.Raw = world.Bin("GET " + key() + "\r\n")
			req.Tag = "inline"
		case x < 97: // opaque-mode forwarded command
			req.Args = world.Bins("SETBIT", key()+":b", fmt.Sprint(r.Intn(64)), "1")
		default:
			req.Args = world.Bins("GETRANGE", key(), "0", fmt.Sprint(r.Intn(10)))
		}
		req.Cut = cutPoints(r, len(req.Encode()))
		cs.Reqs = append(cs.Reqs, req)
	}
	return cs
}

func inlineModel(r world.Request) [][]byte {
	if r.Tag != "inline" {
		return nil
	}
	line := strings.TrimSuffix(string(r.Raw), "\r\n")
	var out [][]byte
	for _, f := range strings.Split(line, " ") {
		if f != "" {
			out = append(out, []byte(f))
		}
	}
	return out
}

func (p c01) Gen(r *simhook.Rand, tier string, idx int) harness.Scenario {
	sc := &RedisScenario{Meta: harness.GenMeta(r, 0)}
	sc.Env = world.RedisCfg{Masters: 2 + r.Intn(5)}
	if r.Chance(1, 2) {
		sc.Env.FragNum, sc.Env.FragDen = 1, 1+r.Intn(4)
	}
	if r.Chance(1, 6) {
		sc.Env.BufCap = []int{1, 7, 64, 1024, 65536}[r.Intn(5)]
	}
	nconn := 1 + r.Intn(4)
	maxReq := 24
	if r.Chance(1, 3) {
		maxReq = 64
	}
	for ci := 0; ci < nconn; ci++ {
		name := fmt.Sprintf("c%d", ci)
		keys := keyPool(r, 3+r.Intn(6), name+":")
		for i, k := range keys {
			if r.Chance(2, 3) {
				sc.Env.Preload = append(sc.Env.Preload, world.KV{K: world.Bin(k), V: world.Bin(padVal(name, 1000+i, 10+r.Intn(30)))})
			}
		}
		cs := genC01Conn(r, name, 1+r.Intn(maxReq), keys)
		if r.Chance(1, 6) {
			cs.SlowRead = 1
		}
		// connections start once the proxy has a routing table: a request redirected because the table is
		// still empty may execute after a later request of the same connection, which C04 (not C01) judges
		sc.Conns = append(sc.Conns, cs)
	}
	if r.Chance(1, 14) {
		// class "deep-queue": one node holds its replies back for a while (a slow node) while a very wide MGET plus the
		// other pipelines put more requests in flight to it than the 1024-entry queues of a backend connection hold.
		// When it answers again, every reply must still reach its own request.
		sc.Class = "deep-queue"
		sc.Env.Masters = 1
		n := 1030 + r.Intn(300)
		a := world.Bins("MGET")
		for i := 0; i < n; i++ {
			a = append(a, world.Bin(fmt.Sprintf("{dq}%d", i)))
		}
		sc.Conns = append([]ConnScript{{Name: "dq", Reqs: []world.Request{{Args: a}}}}, sc.Conns...)
		sc.Faults = append(sc.Faults, Fault{Kind: "stall", Node: 0, AfterSend: 0}, Fault{Kind: "unstall", Node: 0, AfterSend: n*14 + r.Intn(8000)}) // ~11 scheduler steps per MGET child: the queues are full by then
		sc.IdleFaults = true
		return sc
	}
	if r.Chance(1, 5) {
		// class "migration": slots of the connections' keys migrate while the pipelines run, so that requests are
		// answered ASK/MOVED and resent.  The order in which redirected requests execute is C04's subject; here each
		// reply must still belong to its own request (value attributable to the request's key), one per request
		sc.Class = "migration"
		for i := 0; i < 1+r.Intn(4); i++ {
			k := sc.Env.Preload
			slot := r.Intn(cluster.NumSlots)
			if len(k) > 0 {
				slot = cluster.Slot(k[r.Intn(len(k))].K)
			}
			sc.Faults = append(sc.Faults, Fault{Kind: "mig-start", From: slot, Dst: r.Intn(sc.Env.Masters), AfterSend: r.Intn(200)})
		}
		if r.Chance(1, 3) {
			// with a compression section present (threshold above every value, so no byte changes) the backend writers
			// run the filter chain and every request carries one more completion hook; requests are redirected up to
			// twice (MOVED by a stale table, then ASK by the migration); slow migrations keep the ASK phase open
			sc.Class = "migration+filters"
			sc.Env.Compression = &world.Compression{Enable: true, Threshold: 1 << 20}
			sc.MigStepMs = []int{0, 50, 2000}[r.Intn(3)]
			for ci := range sc.Conns {
				for ri := range sc.Conns[ci].Reqs {
					a := sc.Conns[ci].Reqs[ri].Args
					for _, b := range c13Banned {
						if len(a) >= 2 && strings.EqualFold(string(a[0]), b) {
							// refused in compress mode: keep the programs free of these here
							sc.Conns[ci].Reqs[ri].Args = world.Bins("STRLEN", string(a[1]))
						}
					}
				}
			}
			// one slot is first handed to another master (the proxy's table goes stale: MOVED) and then migrated
			// onwards from there (ASK): a request for it makes three trips
			if pre := sc.Env.Preload; len(pre) > 0 {
				slot := cluster.Slot(pre[r.Intn(len(pre))].K)
				at := r.Intn(150)
				sc.Faults = append(sc.Faults, Fault{Kind: "layout", From: slot, To: slot, Dst: r.Intn(sc.Env.Masters), AfterSend: at})
				sc.Faults = append(sc.Faults, Fault{Kind: "mig-start", From: slot, Dst: r.Intn(sc.Env.Masters), AfterSend: at + 1 + r.Intn(40)})
				// multi-key reads whose first key lives in that slot (the child that makes the trips is not the last one),
				// issued by the connection that owns those keys (keys are private to their connection in this profile)
				for ci := range sc.Conns {
					prefix := sc.Conns[ci].Name + ":"
					var mine []string
					ks := ""
					for _, kv := range pre {
						if strings.HasPrefix(string(kv.K), prefix) {
							mine = append(mine, string(kv.K))
							if cluster.Slot(kv.K) == slot {
								ks = string(kv.K)
							}
						}
					}
					if ks == "" || len(mine) < 2 {
						continue
					}
					for j := 0; j < 2+r.Intn(4); j++ {
						at := r.Intn(len(sc.Conns[ci].Reqs) + 1)
						rq := world.Request{Args: world.Bins("MGET", ks, mine[r.Intn(len(mine))])}
						reqs := append([]world.Request(nil), sc.Conns[ci].Reqs[:at]...)
						reqs = append(append(reqs, rq), sc.Conns[ci].Reqs[at:]...)
						sc.Conns[ci].Reqs = reqs
					}
				}
			}
		}
	}
	return sc
}

type c01State struct {
	expected [][]Expect
	children int
	maxOut   int
	bad      *simrtViolation
}

func (p c01) Run(t *testing.T, s harness.Scenario) harness.Outcome {
	sc := s.(*RedisScenario)
	w := newRedisWorld(sc)
	st := &c01State{}
	// expectations: each connection's program on its own private store
	for _, cs := range sc.Conns {
		store := refredis.New()
		for _, kv := range sc.Env.Preload {
			if strings.HasPrefix(string(kv.K), cs.Name+":") {
				store.SetString(string(kv.K), kv.V)
			}
		}
		var exp []Expect
		for _, rq := range cs.Reqs {
			e := expectRequest(store, rq, inlineModel(rq))
			st.children += e.Children
			exp = append(exp, e)
		}
		st.expected = append(st.expected, exp)
	}
	w.step = func(w *redisWorld) *simrtViolation {
		if st.bad != nil {
			return st.bad
		}
		for ci, c := range w.env.Clients {
			if c.OnReply == nil {
				ci := ci
				c.OnReply = func(c *world.Client, s *world.Sent) {
					e := st.expected[ci][s.Idx]
					if strings.HasPrefix(sc.Class, "migration") {
						if v := belongsTo(sc, c, s); v != nil && st.bad == nil {
							st.bad = v
						}
						return
					}
					if !e.Matches(s.Reply) && st.bad == nil {
						st.bad = &simrtViolation{Clause: "kth-reply-is-kth-result",
							Detail: fmt.Sprintf("connection %s: reply #%d is %s, but request #%d %s executed in program order yields %s",
								c.Name, s.Idx, s.Reply.String(), s.Idx, describeReq(c.Script[s.Idx]), e.String())}
					}
				}
			}
			if o := c.Replies; len(c.Sent)-o > st.maxOut {
				st.maxOut = len(c.Sent) - o
			}
		}
		return st.bad
	}
	w.fin = func(w *redisWorld) *simrtViolation {
		if st.bad != nil {
			return st.bad
		}
		for _, c := range w.env.Clients {
			if c.EOF || c.Reset {
				return &simrtViolation{Clause: "connection-stays-open", Detail: fmt.Sprintf("the proxy ended connection %s after %d of %d replies although the client sent only complete, well-delimited requests", c.Name, c.Replies, len(c.Script))}
			}
			if len(c.Pending()) > 0 {
				return &simrtViolation{Clause: "no-trailing-bytes", Detail: fmt.Sprintf("connection %s: %d bytes after the last reply: %q", c.Name, len(c.Pending()), trunc(c.Pending(), 60))}
			}
		}
		if strings.HasPrefix(sc.Class, "migration") {
			return nil
		}
		// every forwarded sub-command was executed by a backend exactly once
		acc := 0
		for _, le := range w.env.Cluster.Log {
			n := strings.ToLower(string(le.Args[0]))
			if le.Accepted && n != "readonly" && n != "cluster" && n != "asking" {
				acc++
			}
		}
		if acc != st.children {
			return &simrtViolation{Clause: "subcommands-executed-once", Detail: fmt.Sprintf("backends executed %d keyed commands, the requests call for %d", acc, st.children)}
		}
		return nil
	}
	out := runRedis(t, sc, w)
	out.Nontrivial = st.maxOut >= 2
	return out
}

// belongsTo: under redirections the execution order is not judged, but a reply must be a reply to its own
// request: a value read for a key is nil or one of the values this connection's program associates with that key
// (keys are private to the connection and every written value is unique), a status reply matches the command.
func belongsTo(sc *RedisScenario, c *world.Client, s *world.Sent) *simrtViolation {
	rq := c.Script[s.Idx]
	if len(rq.Raw) > 0 || len(rq.Args) < 2 {
		return nil
	}
	name := strings.ToUpper(string(rq.Args[0]))
	vals := func(key string) map[string]bool {
		m := map[string]bool{}
		for _, kv := range sc.Env.Preload {
			if string(kv.K) == key {
				m[string(kv.V)] = true
			}
		}
		for _, cs := range sc.Conns {
			if cs.Name != c.Name {
				continue
			}
			for _, q := range cs.Reqs {
				if len(q.Args) == 0 {
					continue
				}
				if len(q.Args) >= 3 && strings.EqualFold(string(q.Args[0]), "SET") && string(q.Args[1]) == key {
					m[string(q.Args[2])] = true
				}
				if strings.EqualFold(string(q.Args[0]), "MSET") {
					for i := 1; i+1 < len(q.Args); i += 2 {
						if string(q.Args[i]) == key {
							m[string(q.Args[i+1])] = true
						}
					}
				}
			}
		}
		return m
	}
	appended := func(key string) bool {
		for _, cs := range sc.Conns {
			for _, q := range cs.Reqs {
				if len(q.Args) >= 2 && strings.EqualFold(string(q.Args[0]), "APPEND") && string(q.Args[1]) == key {
					return true
				}
			}
		}
		return false
	}
	bad := func(what string) *simrtViolation {
		return &simrtViolation{Clause: "reply-belongs-to-request", Detail: fmt.Sprintf("connection %s request #%d %s was answered %s: %s", c.Name, s.Idx, describeReq(rq), s.Reply.String(), what)}
	}
	checkVal := func(key string, v resp2.Value) *simrtViolation {
		if v.IsErr() || v.Null || appended(key) {
			return nil
		}
		if v.Kind != resp2.Bulk {
			return bad("a GET-like read is answered with a bulk string")
		}
		if !vals(key)[string(v.Str)] {
			return bad(fmt.Sprintf("the value was never associated with key %q", key))
		}
		return nil
	}
	switch name {
	case "GET":
		if len(rq.Args) == 2 {
			return checkVal(string(rq.Args[1]), s.Reply)
		}
	case "MGET":
		if s.Reply.IsErr() {
			return nil
		}
		if s.Reply.Kind != resp2.Array || len(s.Reply.Arr) != len(rq.Args)-1 {
			return bad("MGET is answered with one element per key")
		}
		for i, k := range rq.Args[1:] {
			if v := checkVal(string(k), s.Reply.Arr[i]); v != nil {
				return v
			}
		}
	case "SET", "MSET":
		if !s.Reply.IsErr() && !(s.Reply.Kind == resp2.Simple && string(s.Reply.Str) == "OK") {
			return bad("a SET is answered +OK or an error")
		}
	case "DEL", "EXISTS", "TOUCH", "UNLINK", "STRLEN", "APPEND", "INCR", "DECR", "RPUSH", "HSET":
		if !s.Reply.IsErr() && s.Reply.Kind != resp2.Int {
			return bad("the command is answered with an integer or an error")
		}
	}
	return nil
}

func (p c01) Shrink(s harness.Scenario) []harness.Scenario { return shrinkRedis(s.(*RedisScenario)) }

var _ = resp2.Nil

package profiles

import (
	"bytes"
	"fmt"
	"sort"
	"strings"
	"testing"
	"time"

	"github.com/anishathalye/porcupine"

	"verif.local/sim/cluster"
	"verif.local/sim/harness"
	"verif.local/sim/refredis"
	"verif.local/sim/resp2"
	"verif.local/sim/simhook"
	"verif.local/sim/world"
)

// C04 — slot migration and fail-over are invisible to clients.
type c04 struct{}

func init() { harness.Register(c04{}) }

func (c04) ID() string              { return "C04" }
func (c04) Empty() harness.Scenario { return &RedisScenario{} }
func (c04) NontrivialRule() string {
	return "a run is non-trivial when a migration step or a fail-over happened while at least one client request was outstanding; distinct = distinct (scenario, execution-hash) pairs"
}
func (c04) Components() ([]string, []string) {
	return []string{"redis.upstream (MOVED/ASK handling, ASKING, slot refresh)", "redis.client", "redis.session", "redis.request", "redis.slot (CLUSTER NODES parser)"},
		[]string{"network (simnet)", "Redis cluster nodes with MIGRATING/IMPORTING/ASK/MOVED, replicas and fail-over (cluster)", "clients", "reference Redis + porcupine"}
}

// keysInSlot returns n distinct keys hashing to the slot of tag.
func keysInSlot(tag string, n int) []string {
	out := make([]string, n)
	for i := range out {
		out[i] = fmt.Sprintf("{%s}:%d", tag, i)
	}
	return out
}

func genC04Cmd(r *simhook.Rand, conn string, k int, key string) world.Request {
	u := func() world.Bin { return world.Bin(uniqueVal(conn, k, 8+r.Intn(8))) }
	var a []world.Bin
	switch x := r.Intn(100); {
	case x < 25:
		a = world.Bins("GET", key)
	case x < 45:
		a = append(world.Bins("SET", key), u())
	case x < 52:
		a = append(world.Bins("APPEND", key), u())
	case x < 58:
		a = append(world.Bins("GETSET", key), u())
	case x < 62:
		a = world.Bins("STRLEN", key)
	case x < 68:
		a = append(world.Bins("LPUSH", key+":l"), u())
	case x < 72:
		a = world.Bins("LRANGE", key+":l", "0", "-1")
	case x < 77:
		a = append(world.Bins("SADD", key+":s"), u())
	case x < 80:
		a = world.Bins("SMEMBERS", key+":s")
	case x < 85:
		a = append(world.Bins("HSET", key+":h", fmt.Sprintf("f%d", r.Intn(2))), u())
	case x < 88:
		a = world.Bins("HGETALL", key+":h")
	case x < 92:
		a = world.Bins("EXISTS", key)
	case x < 95:
		a = world.Bins("DEL", key)
	default:
		a = world.Bins("INCR", key+":n")
	}
	return world.Request{Args: a}
}

func (p c04) Gen(r *simhook.Rand, tier string, idx int) harness.Scenario {
	sc := &RedisScenario{Meta: harness.GenMeta(r, 0)}
	sc.Env = world.RedisCfg{Masters: 2 + r.Intn(3)}
	m := sc.Env.Masters
	failover := r.Chance(1, 3)
	if failover {
		sc.Env.Replicas = 1
	}
	if r.Chance(1, 4) {
		sc.Env.FragNum, sc.Env.FragDen = 1, 3
	}
	if r.Chance(1, 14) {
		// class "crash-then-removed": a master dies (its replica takes over), discovery withdraws the dead node from the
		// host list, and well after that its former slots are read and written again: their owner is reachable and the
		// proxy has been told that the old one is gone.
		sc.Class = "crash-then-removed"
		sc.Env = world.RedisCfg{Masters: 2, Replicas: 1}
		sc.SlackMs = []int{0, 1, 200}[r.Intn(3)]
		ks := keysForNodes(r, 2, "cr", 3)
		for n := range ks {
			for i, kk := range ks[n] {
				sc.Env.Preload = append(sc.Env.Preload, world.KV{K: world.Bin(kk), V: world.Bin(uniqueVal("pre", n*10+i, 10))})
			}
		}
		dead := r.Intn(2)
		cs := ConnScript{Name: "c0"}
		for i := 0; i < 3+r.Intn(4); i++ {
			cs.Reqs = append(cs.Reqs, world.Request{Args: world.Bins("GET", ks[r.Intn(2)][r.Intn(3)]), Wait: true})
		}
		// idle while the crash and the removal happen (the connection to the dead master is lost without a request in flight)
		for i := 0; i < 4+r.Intn(6); i++ {
			rq := world.Request{Args: world.Bins("GET", ks[dead][r.Intn(3)]), Wait: true}
			if i == 0 {
				rq.Gap = 100000
			}
			if r.Chance(1, 3) {
				rq.Args = append(world.Bins("SET", ks[dead][r.Intn(3)]), world.Bin(uniqueVal("w", i, 8)))
			}
			cs.Reqs = append(cs.Reqs, rq)
		}
		sc.Conns = []ConnScript{cs}
		// the replica of master i is node 2+i
		sc.Faults = []Fault{
			{Kind: "failover-crash", Node: 2 + dead, AtMs: 5000 + r.Intn(10000)},
			{Kind: "host-remove", Node: dead, AtMs: 20000 + r.Intn(20000)},
		}
		sc.HorizonS = 900
		return sc
	}
	if r.Chance(1, 12) {
		// class "refresh-in-flight+crash": a slot moves while the reply of a periodic CLUSTER NODES request is on its way
		// back; a read of that slot is redirected before the reply is processed; then the old owner dies (its replica
		// takes over its remaining slots). A minute later the key is read again: its owner is reachable.
		sc.Class = "refresh-in-flight+crash"
		sc.Env = world.RedisCfg{Masters: 2 + r.Intn(2), Replicas: 1}
		sc.SlackMs = []int{0, 1, 200}[r.Intn(3)]
		m := sc.Env.Masters
		ks := keysForNodes(r, m, "rf", 2)
		src := r.Intn(m)
		k := ks[src][r.Intn(2)]
		for n := range ks {
			for i, kk := range ks[n] {
				sc.Env.Preload = append(sc.Env.Preload, world.KV{K: world.Bin(kk), V: world.Bin(uniqueVal("pre", n*10+i, 10))})
			}
		}
		slot := cluster.Slot([]byte(k))
		sc.Conns = []ConnScript{{Name: "c0", Reqs: []world.Request{
			{Args: world.Bins("GET", k), Wait: true},
			{Args: world.Bins("GET", k), Wait: true, Gap: 60000},
		}}}
		// the replica of master i is node m+i
		sc.Faults = []Fault{
			{Kind: "layout", From: slot, To: slot, Dst: (src + 1 + r.Intn(m-1)) % m, OnCmd: "cluster", Nth: 2 + r.Intn(2)},
			{Kind: "failover-crash", Node: m + src, OnCmd: "get", Nth: 2},
		}
		sc.HorizonS = 900
		return sc
	}
	if r.Chance(1, 12) {
		// class "asking-interleave": the proxy's table still names node B for a slot that has meanwhile gone to A and is
		// now slowly migrating back to B. One connection reads keys that do not exist (B: MOVED to A, A: ASK to B, the
		// proxy sends ASKING + GET to B), another reads keys that exist and are still on A (B: MOVED to A, executed
		// there). Both pipelines hit B's connection at the same time: the one-shot ASKING must stay with its request.
		sc.Class = "asking-interleave"
		sc.Env = world.RedisCfg{Masters: 2 + r.Intn(2)}
		sc.SlackMs = 0
		sc.MigStepMs = 7000
		tag := fmt.Sprintf("ai%c", 'a'+rune(r.Intn(26)))
		slot := cluster.Slot([]byte("{" + tag + "}"))
		per := cluster.NumSlots / sc.Env.Masters
		b := slot / per // the node that owns the slot in the even start layout
		if b >= sc.Env.Masters {
			b = sc.Env.Masters - 1
		}
		a := (b + 1) % sc.Env.Masters
		nk := 12 + r.Intn(20)
		for i := 0; i < nk; i++ {
			sc.Env.Preload = append(sc.Env.Preload, world.KV{K: world.Bin(fmt.Sprintf("{%s}:%d", tag, i)), V: world.Bin(uniqueVal("pre", i, 10))})
		}
		miss := ConnScript{Name: "c0"}
		hit := ConnScript{Name: "c1"}
		for i := 0; i < 20+r.Intn(30); i++ {
			miss.Reqs = append(miss.Reqs, world.Request{Args: world.Bins("GET", fmt.Sprintf("{%s}:absent%d", tag, i))})
			hit.Reqs = append(hit.Reqs, world.Request{Args: world.Bins("GET", fmt.Sprintf("{%s}:%d", tag, nk-1-r.Intn(nk/2)))})
		}
		// the traffic starts when the migration is half way: importing and migrating are set, a few keys have moved
		miss.Reqs[0].Gap = 30000
		hit.Reqs[0].Gap = 30000
		sc.Conns = []ConnScript{miss, hit}
		sc.Faults = []Fault{
			{Kind: "layout", From: slot, To: slot, Dst: a, OnCmd: "cluster", Nth: 1},
			{Kind: "mig-start", From: slot, Dst: b, OnCmd: "cluster", Nth: 1},
		}
		sc.HorizonS = 900
		sc.IdleFaults = false
		return sc
	}
	if r.Chance(1, 12) {
		// class "first-contact": right after the routing table was loaded a slot goes to a master the proxy has had no
		// reason to talk to yet; pipelines on keys of that slot are all sent to the old owner, answered MOVED and
		// re-sent to a node that must first be connected to. Their order must survive.
		sc.Class = "first-contact"
		sc.Env = world.RedisCfg{Masters: 3 + r.Intn(2)}
		m := sc.Env.Masters
		tag := fmt.Sprintf("fc%c", 'a'+rune(r.Intn(26)))
		slot := cluster.Slot([]byte("{" + tag + "}"))
		per := cluster.NumSlots / m
		src := slot / per
		if src >= m {
			src = m - 1
		}
		keys := []string{fmt.Sprintf("{%s}:0", tag), fmt.Sprintf("{%s}:1", tag)}
		sc.Env.Preload = append(sc.Env.Preload, world.KV{K: world.Bin(keys[0]), V: world.Bin(uniqueVal("pre", 0, 10))})
		for ci := 0; ci < 1+r.Intn(2); ci++ {
			cs := ConnScript{Name: fmt.Sprintf("c%d", ci)}
			for k := 0; k < 6+r.Intn(10); k++ {
				key := keys[r.Intn(2)]
				var a []world.Bin
				switch r.Intn(4) {
				case 0:
					a = world.Bins("GET", key)
				case 1:
					a = append(world.Bins("APPEND", key), world.Bin(uniqueVal(cs.Name, k, 6)))
				default:
					a = append(world.Bins("SET", key), world.Bin(uniqueVal(cs.Name, k, 10)))
				}
				cs.Reqs = append(cs.Reqs, world.Request{Args: a})
			}
			sc.Conns = append(sc.Conns, cs)
		}
		sc.Faults = []Fault{{Kind: "layout", From: slot, To: slot, Dst: (src + 1 + r.Intn(m-1)) % m, OnCmd: "cluster", Nth: 1}}
		sc.HorizonS = 900
		return sc
	}
	emptyTarget := r.Chance(1, 3)
	if emptyTarget {
		// the last master is a freshly added node without slots: the first slots migrate to it
		per := cluster.NumSlots / (m - 1)
		for i := 0; i < m-1; i++ {
			to := (i+1)*per - 1
			if i == m-2 {
				to = cluster.NumSlots - 1
			}
			sc.Env.Layout = append(sc.Env.Layout, world.SlotRange{From: i * per, To: to, Node: i})
		}
		sc.Class = "empty-target"
	}
	naff := 1 + r.Intn(3)
	var keys []string
	var tags []string
	for i := 0; i < naff; i++ {
		tag := fmt.Sprintf("m%d%c", i, 'a'+rune(r.Intn(26)))
		tags = append(tags, tag)
		keys = append(keys, keysInSlot(tag, 2+r.Intn(3))...)
	}
	nAffKeys := len(keys)
	for i := 0; i < 2+r.Intn(3); i++ {
		keys = append(keys, fmt.Sprintf("by%d%c", i, 'a'+rune(r.Intn(26))))
	}
	for i, k := range keys {
		if r.Chance(2, 3) {
			sc.Env.Preload = append(sc.Env.Preload, world.KV{K: world.Bin(k), V: world.Bin(uniqueVal("pre", i, 10))})
		}
	}
	use := map[string]int{}
	pick := func() string {
		for t := 0; t < 10; t++ {
			var k string
			if r.Chance(3, 4) {
				k = keys[r.Intn(nAffKeys)]
			} else {
				k = keys[r.Intn(len(keys))]
			}
			if use[k] < 20 {
				use[k]++
				return k
			}
		}
		return fmt.Sprintf("spill%d", r.Intn(1000))
	}
	nconn := 1 + r.Intn(3)
	for ci := 0; ci < nconn; ci++ {
		cs := ConnScript{Name: fmt.Sprintf("c%d", ci)}
		n := 3 + r.Intn(25)
		for k := 0; k < n; k++ {
			rq := genC04Cmd(r, cs.Name, k, pick())
			if r.Chance(1, 12) {
				// multi-key commands across the affected slots
				if r.Chance(1, 2) {
					a := world.Bins("MGET")
					for i := 0; i < 2+r.Intn(3); i++ {
						a = append(a, world.Bin(pick()))
					}
					rq = world.Request{Args: a}
				} else {
					a := world.Bins("MSET")
					for i := 0; i < 1+r.Intn(3); i++ {
						a = append(a, world.Bin(pick()), world.Bin(uniqueVal(cs.Name, 1000+k*16+i, 10)))
					}
					rq = world.Request{Args: a}
				}
			}
			if r.Chance(1, 3) {
				rq.Wait = true
			}
			if r.Chance(1, 6) {
				rq.Gap = 1 + r.Intn(3000)
			}
			cs.Reqs = append(cs.Reqs, rq)
		}
		if r.Chance(1, 4) {
			cs.MaxOut = 1 + r.Intn(3)
		}
		sc.Conns = append(sc.Conns, cs)
	}
	// migrations of the affected slots
	for _, tag := range tags {
		slot := cluster.Slot([]byte("{" + tag + "}:0"))
		dst := r.Intn(m)
		if emptyTarget {
			dst = m - 1
		}
		sc.Faults = append(sc.Faults, Fault{Kind: "mig-start", From: slot, Dst: dst, AfterSend: r.Intn(250)})
		if r.Chance(1, 4) {
			// and back again later
			sc.Faults = append(sc.Faults, Fault{Kind: "mig-start", From: slot, Dst: r.Intn(m), AfterSend: 250 + r.Intn(400)})
		}
	}
	if failover {
		kind := "failover"
		if r.Chance(1, 2) {
			kind = "failover-crash"
		}
		sc.Faults = append(sc.Faults, Fault{Kind: kind, Node: m + r.Intn(m), AfterSend: r.Intn(400)})
	}
	if r.Chance(1, 3) {
		n := r.Intn(m)
		at := r.Intn(200)
		sc.Faults = append(sc.Faults, Fault{Kind: "freeze-view", Node: n, AfterSend: at})
		sc.Faults = append(sc.Faults, Fault{Kind: "thaw-view", Node: n, AfterSend: at + r.Intn(600)})
	}
	if r.Chance(1, 4) || (emptyTarget && r.Chance(1, 2)) {
		// a slow node: one master (the migration target when it starts empty) holds its replies back for 6-26 simulated
		// seconds, longer than the 5 s pause between slot refreshes: redirected requests are still outstanding on its
		// connection when the refresh they triggered runs
		n := r.Intn(m)
		if emptyTarget {
			n = m - 1
		}
		sc.Faults = append(sc.Faults, Fault{Kind: "stall", Node: n, AfterSend: r.Intn(300)})
		sc.Faults = append(sc.Faults, Fault{Kind: "unstall", Node: n, AtMs: 6000 + r.Intn(20000)})
	}
	sc.MigStepMs = []int{0, 0, 0, 50, 2000, 7000}[r.Intn(6)]
	if emptyTarget && r.Chance(1, 2) {
		sc.MigStepMs = []int{2000, 7000}[r.Intn(2)] // the first slots of a new node take their time: it stays slot-less for a while
	}
	sort.SliceStable(sc.Faults, func(i, j int) bool { return sc.Faults[i].AfterSend < sc.Faults[j].AfterSend })
	sc.IdleFaults = true
	// after everything settled (well beyond the periodic refresh) the layout must be learned: probes see no
	// error, a later round causes no redirection
	sc.SettleMs = 660000
	pr := ConnScript{Name: "p0"}
	pr2 := ConnScript{Name: "q0"}
	for _, k := range keys {
		pr.Reqs = append(pr.Reqs, world.Request{Args: world.Bins("GET", k), Wait: true})
		pr2.Reqs = append(pr2.Reqs, world.Request{Args: world.Bins("GET", k), Wait: true})
	}
	sc.Probes, sc.Probes2 = []ConnScript{pr}, []ConnScript{pr2}
	sc.HorizonS = 900
	return sc
}

func hasRedirectText(v resp2.Value) bool {
	if v.Kind == resp2.Err {
		t := strings.ToUpper(string(v.Str))
		return strings.HasPrefix(t, "MOVED ") || strings.HasPrefix(t, "ASK ")
	}
	for _, e := range v.Arr {
		if hasRedirectText(e) {
			return true
		}
	}
	return false
}

type c04In struct {
	conn, idx int
	args      [][]byte
	indet     bool // the reply was an admitted error: the operation may or may not have taken effect
}

func c04Model(init *refredis.Store, programOrder bool) porcupine.Model {
	return porcupine.Model{
		Init: func() interface{} { return linState{store: init, last: map[int]int{}} },
		Step: func(state, input, output interface{}) (bool, interface{}) {
			st := state.(linState)
			in := input.(c04In)
			out := output.(resp2.Value)
			if programOrder && !in.indet {
				if l, ok := st.last[in.conn]; ok && in.idx < l {
					return false, st
				}
			}
			ns := linState{store: st.store.Clone(), last: map[int]int{}}
			for k, v := range st.last {
				ns.last[k] = v
			}
			if programOrder && !in.indet {
				ns.last[in.conn] = in.idx
			}
			want := ns.store.Exec(in.args)
			if in.indet || out.Kind == 0 {
				return true, ns
			}
			if want.IsErr() {
				return out.IsErr(), ns
			}
			return bytes.Equal(want.Bytes(), out.Bytes()), ns
		},
		Equal: func(a, b interface{}) bool { return a.(linState).fp() == b.(linState).fp() },
	}
}

func (p c04) Run(t *testing.T, s harness.Scenario) harness.Outcome {
	sc := s.(*RedisScenario)
	w := newRedisWorld(sc)
	init := refredis.New()
	for _, kv := range sc.Env.Preload {
		init.SetString(string(kv.K), kv.V)
	}
	var bad *simrtViolation
	overlap := false
	w.step = func(w *redisWorld) *simrtViolation {
		if bad != nil {
			return bad
		}
		for _, c := range w.env.Clients {
			if c.OnReply == nil {
				c.OnReply = func(c *world.Client, s *world.Sent) {
					if hasRedirectText(s.Reply) && bad == nil {
						bad = &simrtViolation{Clause: "no-redirection-visible", Detail: fmt.Sprintf("connection %s request %s was answered %s", c.Name, describeReq(c.Script[s.Idx]), s.Reply.String())}
					}
				}
			}
		}
		if (w.migActive > 0 || len(w.crashSteps) > 0) && w.outstanding() > 0 {
			overlap = true
		}
		if sc.Class == "refresh-in-flight+crash" {
			for _, c := range w.env.Clients {
				if c.Gate == nil {
					// request 0 waits for the layout change, request 1 for the crash
					c.Gate = func(c *world.Client, idx int) bool { return idx < len(w.fired) && w.fired[idx] }
				}
				if len(c.Sent) < 2 {
					c.Kick()
				}
			}
		}
		return bad
	}
	w.fin = func(w *redisWorld) *simrtViolation {
		if bad != nil {
			return bad
		}
		cl := w.env.Cluster
		connIdx := map[string]int{}
		for i, c := range w.env.Clients {
			connIdx[c.Name] = i
		}
		// toldGone: the master that died in crash i was withdrawn from the service's host list (discovery told the proxy
		// that it is gone) long before the request was invoked - a refresh round plus the timer slack of each of its
		// few dozen scheduling points; no node was slow or kept announcing an old layout in this scenario
		toldGone := func(i int, sn *world.Sent) bool {
			if i >= len(w.crashMasters) {
				return false
			}
			at, ok := w.hostRemoved[w.crashMasters[i]]
			if !ok {
				return false
			}
			for _, f := range sc.Faults {
				if f.Kind == "stall" || f.Kind == "freeze-view" || f.Kind == "silent" {
					return false
				}
			}
			learn := 30*time.Second + 40*time.Duration(sc.SlackMs)*time.Millisecond
			return sn.InvokeTime.After(at.Add(learn))
		}
		admitted := func(sn *world.Sent, key []byte) bool {
			// errors are admitted only around a crash fail-over: the request must not have been invoked later than
			// the horizon after the crash, must not have completed before it, and its key must live in a slot the
			// crashed master had to do with (owned, migrating or importing) - the other slots' owners are reachable
			for i, cs := range w.crashSteps {
				if toldGone(i, sn) {
					continue
				}
				if sn.DoneStep >= cs && sn.InvokeTime.Before(w.crashTimes[i].Add(w.horizon())) && (i >= len(w.crashSlots) || w.crashSlots[i][cluster.Slot(key)]) {
					return true
				}
			}
			return false
		}
		// which (exact) commands were redirected at least once
		redirected := map[string]bool{}
		accepted := map[string]int{}
		atReplica := map[string]bool{}
		movedCmd := map[string]bool{}
		redirChain := map[string][]int{} // the nodes that answered a uniquely identifiable command with MOVED/ASK, in order
		execAt := map[string]int{}       // position in the nodes' log at which a uniquely identifiable command was executed
		for li, le := range cl.Log {
			n := strings.ToLower(string(le.Args[0]))
			if n == "readonly" || n == "cluster" || n == "asking" {
				continue
			}
			if le.Accepted {
				if _, seen := execAt[formKey(le.Args)]; !seen && uniqueArg(le.Args) {
					execAt[formKey(le.Args)] = li
				}
				accepted[formKey(le.Args)]++
				if le.AsReplica {
					atReplica[formKey(le.Args)] = true
				}
			} else {
				redirected[formKey(le.Args)] = true
				if le.Reply.IsErr() && strings.HasPrefix(string(le.Reply.Str), "MOVED ") {
					movedCmd[formKey(le.Args)] = true // MOVED names the new owner and makes the proxy refresh; ASK does neither
				}
				if uniqueArg(le.Args) {
					redirChain[formKey(le.Args)] = append(redirChain[formKey(le.Args)], le.Node)
				}
			}
		}
		byKey := map[string][]porcupine.Operation{}
		sentOf := map[[2]int]*world.Sent{}
		for _, c := range w.env.Clients {
			ci := connIdx[c.Name]
			for _, sn := range c.Sent {
				if !sn.Answered {
					// sent and not (yet) answered - e.g. the reply is held back by a slow node: the command may or may not
					// have taken effect, at any time after its invocation
					pa := world.BinsToBytes(c.Script[sn.Idx].Args)
					pn := strings.ToLower(string(pa[0]))
					var pins [][][]byte
					switch {
					case pn == "mset":
						for i := 1; i+1 < len(pa); i += 2 {
							pins = append(pins, [][]byte{[]byte("set"), pa[i], pa[i+1]})
						}
					case pn == "mget":
					default:
						if redisWrite[pn] && len(pa) > 1 {
							pins = [][][]byte{pa}
						}
					}
					for _, in := range pins {
						k := string(in[refredis.KeyIndex(string(in[0]))])
						byKey[k] = append(byKey[k], porcupine.Operation{ClientId: ci, Input: c04In{conn: ci, idx: sn.Idx, args: in, indet: true}, Call: sn.InvokeStep, Output: resp2.Value{}, Return: 1 << 60})
					}
					continue
				}
				sentOf[[2]int{ci, sn.Idx}] = sn
				args := world.BinsToBytes(c.Script[sn.Idx].Args)
				name := strings.ToLower(string(args[0]))
				isProbe := strings.HasPrefix(c.Name, "p") || strings.HasPrefix(c.Name, "q")
				if isProbe && sn.Reply.IsErr() {
					return &simrtViolation{Clause: "no-error-after-settling", Detail: fmt.Sprintf("probe %s %s, issued %v after the last migration/fail-over step with every owner reachable, got %s", c.Name, describeReq(c.Script[sn.Idx]), time.Duration(sc.SettleMs)*time.Millisecond, sn.Reply.String())}
				}
				var ins [][][]byte
				var outs []resp2.Value
				indet := false
				switch {
				case name == "mset" && sn.Reply.IsErr():
					// children may or may not have been applied
					for i := 1; i+1 < len(args); i += 2 {
						ins = append(ins, [][]byte{[]byte("set"), args[i], args[i+1]})
						outs = append(outs, resp2.Value{})
					}
					indet = true
				case name == "mget" && sn.Reply.Kind == resp2.Array && len(sn.Reply.Arr) == len(args)-1:
					for i, k := range args[1:] {
						ins = append(ins, [][]byte{[]byte("get"), k})
						outs = append(outs, sn.Reply.Arr[i])
					}
				case name == "mset":
					for i := 1; i+1 < len(args); i += 2 {
						ins = append(ins, [][]byte{[]byte("set"), args[i], args[i+1]})
						outs = append(outs, resp2.S("OK"))
					}
				default:
					ins = [][][]byte{args}
					outs = []resp2.Value{sn.Reply}
				}
				for i := range ins {
					out := outs[i]
					in := c04In{conn: ci, idx: sn.Idx, args: ins[i], indet: indet}
					ret := sn.DoneStep
					if out.Kind == resp2.Err {
						// would the model answer with an error too? then it is a result, not a failure
						probe := refredis.New()
						_ = probe
						if admitted(sn, ins[i][refredis.KeyIndex(string(ins[i][0]))]) {
							in.indet = true
						}
					}
					if in.indet {
						ret = 1 << 60
					}
					k := string(ins[i][refredis.KeyIndex(string(ins[i][0]))])
					byKey[k] = append(byKey[k], porcupine.Operation{ClientId: ci, Input: in, Call: sn.InvokeStep, Output: out, Return: ret})
					// (3) a write that was acknowledged was executed by exactly one node; no write is executed twice
					if redisWrite[strings.ToLower(string(ins[i][0]))] && uniqueArg(ins[i]) {
						n := accepted[formKey(ins[i])]
						if n > 1 || (n == 0 && !out.IsErr() && out.Kind != 0) {
							return &simrtViolation{Clause: "write-executed-once", Detail: fmt.Sprintf("write %q was executed by backends %d time(s); client reply %s", trunc(bytes.Join(ins[i], []byte(" ")), 80), n, out.String())}
						}
					}
				}
			}
		}
		keys := make([]string, 0, len(byKey))
		for k := range byKey {
			keys = append(keys, k)
		}
		sort.Strings(keys)
		w.post = append(w.post, func() *simrtViolation {
			for _, k := range keys {
				progressTick()
				one := refredis.New()
				if v, ok := init.RawString(k); ok {
					one.SetString(k, v)
				}
				ops := byKey[k]
				describe := func() string {
					sort.Slice(ops, func(i, j int) bool { return ops[i].Call < ops[j].Call })
					var hist []string
					for _, o := range ops {
						in := o.Input.(c04In)
						tag := ""
						if redirected[formKey(in.args)] {
							tag = " (redirected)"
						}
						if atReplica[formKey(in.args)] {
							tag += " (executed by a replica)"
						}
						if in.indet {
							tag += " (admitted error)"
						}
						ret := fmt.Sprint(o.Return)
						if o.Return >= 1<<59 {
							ret = "inf"
						}
						hist = append(hist, fmt.Sprintf("c%d#%d [%d,%s] %q -> %s%s", in.conn, in.idx, o.Call, ret, trunc(bytes.Join(in.args, []byte(" ")), 50), o.Output.(resp2.Value).String(), tag))
					}
					return strings.Join(hist, "; ")
				}
				switch porcupine.CheckOperationsTimeout(c04Model(one, false), ops, linTimeout) {
				case porcupine.Illegal:
					// an error that the model does not produce and that is not admitted makes the history illegal too
					clause := "linearizable"
					// would the history be fine if every error reply were "may or may not have happened"?  then the
					// only thing wrong is an error returned while no owner was unreachable
					relaxed := make([]porcupine.Operation, len(ops))
					anyErr := false
					for i, o := range ops {
						relaxed[i] = o
						if o.Output.(resp2.Value).IsErr() {
							in := o.Input.(c04In)
							in.indet = true
							relaxed[i].Input = in
							relaxed[i].Return = 1 << 60
							anyErr = true
						}
					}
					note := ""
					if anyErr && porcupine.CheckOperationsTimeout(c04Model(one, false), relaxed, linTimeout) == porcupine.Ok {
						clause = "error-while-owner-reachable"
						// why was the request sent to a node that is gone?  Either the proxy could not know better (the slot
						// had moved away from the crashed master and nothing had redirected the proxy for that slot yet), or
						// it had been told: a request for this slot was redirected at least 30 simulated seconds earlier.
						slot := cluster.Slot([]byte(k))
						for _, o := range ops {
							in := o.Input.(c04In)
							if !o.Output.(resp2.Value).IsErr() || in.indet {
								continue
							}
							failing := sentOf[[2]int{in.conn, in.idx}]
							if failing == nil || len(w.crashSteps) == 0 || failing.DoneStep < w.crashSteps[0] {
								continue
							}
							if toldGone(0, failing) {
								clause = "error-after-removal-of-the-dead-master"
								note = "; the dead master had been withdrawn from the host list long before the failing request (30 simulated seconds plus 40 times the timer slack): the proxy had been told, and the slot's owner is reachable"
								break
							}
							taught := false
							for _, c := range w.env.Clients {
								for _, sn := range c.Sent {
									a := world.BinsToBytes(c.Script[sn.Idx].Args)
									if !sn.Answered || len(a) < 2 || !movedCmd[formKey(a)] || cluster.Slot(a[1]) != slot {
										continue
									}
									// a refresh round is a few dozen scheduling points, each of which may be delayed by the timer slack
									learn := 30*time.Second + 40*time.Duration(sc.SlackMs)*time.Millisecond
									if !sn.InvokeTime.After(failing.InvokeTime.Add(-learn)) {
										taught = true
									}
								}
							}
							slowNode := false
							for _, f := range sc.Faults {
								if f.Kind == "stall" {
									slowNode = true // a slow node can hold the CLUSTER NODES reply, i.e. the table refresh, back for a long time
								}
							}
							if taught && !slowNode {
								clause = "error-after-redirection-taught-the-route"
								note = "; the proxy had been answered MOVED for this slot long before the failing request (30 simulated seconds plus 40 times the timer slack)"
							} else if note == "" && taught {
								note = "; (stale route: the slot had left the crashed master; the proxy had been redirected for it, but a slow node held its table refresh back)"
							} else if note == "" {
								note = "; (stale route: the slot had left the crashed master and the proxy had not been redirected for it yet)"
							}
						}
					}
					for _, o := range ops {
						if atReplica[formKey(o.Input.(c04In).args)] && sc.Env.ReadStrategy == 0 {
							// under the MASTER read strategy a read was executed by a node that is a replica (a demoted
							// master keeps serving reads because the proxy sends READONLY on every backend connection)
							clause = "linearizable-read-at-demoted-master"
						}
					}
					// what the nodes saw of this key, in their order
					var seen []string
					for _, le := range cl.Log {
						for _, a := range le.Args[1:] {
							if string(a) == k {
								how := "executed"
								if !le.Accepted {
									how = "answered " + string(trunc(le.Reply.Str, 30))
								} else if le.Asking {
									how = "executed after ASKING"
								}
								seen = append(seen, fmt.Sprintf("step %d node %d %q: %s", le.Step, le.Node, trunc(bytes.Join(le.Args, []byte(" ")), 40), how))
								break
							}
						}
					}
					if len(seen) > 24 {
						seen = append(seen[:12], append([]string{"..."}, seen[len(seen)-12:]...)...)
					}
					return &simrtViolation{Clause: clause, Detail: fmt.Sprintf("history of key %q has no linearization w.r.t. a single Redis server: %s%s; node side: %s", k, describe(), note, strings.Join(seen, "; "))}
				case porcupine.Unknown:
					w.inconclusive = true
					continue
				}
				switch porcupine.CheckOperationsTimeout(c04Model(one, true), ops, linTimeout) {
				case porcupine.Illegal:
					anyRedir := false
					for _, o := range ops {
						if redirected[formKey(o.Input.(c04In).args)] {
							anyRedir = true
						}
					}
					clause := "program-order"
					if anyRedir {
						clause = "program-order-across-redirection"
					}
					// which pair was executed out of order? (identifiable for commands carrying a unique value: their
					// execution has a position in the nodes' log).  The known defect is "the earlier request made a
					// second trip after a redirection while the later one was routed directly"; a pair in which the later
					// request was redirected as well has another cause and gets its own clause.
					witness := ""
					for _, a := range ops {
						ia := a.Input.(c04In)
						ea, oka := execAt[formKey(ia.args)]
						if !oka {
							continue
						}
						for _, b := range ops {
							ib := b.Input.(c04In)
							eb, okb := execAt[formKey(ib.args)]
							if !okb || ia.conn != ib.conn || ia.idx >= ib.idx || ea < eb {
								continue
							}
							ra, rb := redirected[formKey(ia.args)], redirected[formKey(ib.args)]
							w := fmt.Sprintf("c%d#%d executed after c%d#%d", ia.conn, ia.idx, ib.conn, ib.idx)
							switch {
							case ra && !rb:
								if witness == "" {
									witness = w + " (earlier request redirected, later request routed directly)"
								}
							case rb && fmt.Sprint(redirChain[formKey(ia.args)]) != fmt.Sprint(redirChain[formKey(ib.args)]):
								// both made second trips, sent back by different nodes (or a different number of times):
								// the same missing ordering barrier as in the known defect
								if witness == "" {
									witness = w + fmt.Sprintf(" (both redirected, by different nodes: %v and %v)", redirChain[formKey(ia.args)], redirChain[formKey(ib.args)])
								}
							case rb:
								clause = "program-order-among-redirected"
								witness = w + fmt.Sprintf(" (both were sent back by the same node(s) %v in order, and reached the target out of order)", redirChain[formKey(ia.args)])
							default:
								clause = "program-order"
								witness = w + " (neither request was redirected)"
							}
						}
					}
					for _, o := range ops {
						if atReplica[formKey(o.Input.(c04In).args)] && sc.Env.ReadStrategy == 0 {
							// under the MASTER read strategy a read was executed by a node that is a replica: the demoted master
							// keeps serving reads (known finding), here it shows as a read that seems to run out of order
							clause = "linearizable-read-at-demoted-master"
						}
					}
					if witness != "" {
						witness = "; out-of-order pair: " + witness
					}
					return &simrtViolation{Clause: clause, Detail: fmt.Sprintf("history of key %q is linearizable only by executing two requests of one connection out of order: %s%s", k, describe(), witness)}
				case porcupine.Unknown:
					w.inconclusive = true
				}
			}
			return nil
		})
		if len(w.redirectsAtProbe) >= 2 && w.probeRound >= 2 {
			if d := cl.Redirects - w.redirectsAtProbe[1]; d > 0 {
				return &simrtViolation{Clause: "routing-converges", Detail: fmt.Sprintf("%d redirections during the second probe round, long after the last migration / fail-over step", d)}
			}
		}
		return nil
	}
	out := runRedis(t, sc, w)
	out.Inconclusive = w.inconclusive
	out.Nontrivial = overlap
	return out
}

// uniqueArg: the command carries a harness-unique value ("v:<conn>:<k>:..."), so node-side executions are attributable.
func uniqueArg(args [][]byte) bool {
	for _, a := range args[1:] {
		if bytes.HasPrefix(a, []byte("v:")) {
			return true
		}
	}
	return false
}

func (p c04) Shrink(s harness.Scenario) []harness.Scenario {
	sc := s.(*RedisScenario)
	out := shrinkRedis(sc)
	for _, f := range []func(c *RedisScenario) bool{
		func(c *RedisScenario) bool { ok := len(c.Probes2) > 0; c.Probes2 = nil; return ok },
		func(c *RedisScenario) bool { ok := len(c.Probes) > 0; c.Probes = nil; c.Probes2 = nil; return ok },
		func(c *RedisScenario) bool { ok := c.SettleMs > 0; c.SettleMs = 0; return ok },
	} {
		c := cloneRedis(sc)
		if f(c) {
			out = append(out, c)
		}
	}
	return out
}

package profiles

import (
	"fmt"
	"strings"
	"testing"
	"time"

	"verif.local/sim/harness"
	"verif.local/sim/simhook"
	"verif.local/sim/simnet"
	"verif.local/sim/simrt"
	"verif.local/sim/world"
)

// C09 — listeners: stop and drain always complete and release what they hold.
type c09 struct{}

func init() { harness.Register(c09{}) }

type C09Scenario struct {
	harness.Meta
	Proto   string         `json:"proto"`  // redis | tcp
	Action  string         `json:"action"` // stop | drain | limit | none (base run)
	R       *RedisScenario `json:"redis,omitempty"`
	T       *TCPScenario   `json:"tcp,omitempty"`
	Late    bool           `json:"late_client,omitempty"` // drain: a client connects after StopListen returned
	Backend string         `json:"backend,omitempty"`     // responsive | silent | closed
}

func (s *C09Scenario) GetMeta() *harness.Meta {
	if s.R != nil {
		return &s.R.Meta
	}
	return &s.T.Meta
}

func (c09) ID() string              { return "C09" }
func (c09) Empty() harness.Scenario { return &C09Scenario{} }
func (c09) NontrivialRule() string {
	return "a run is non-trivial when Stop/StopListen was called while the service held something (a listener being bound or bound, a connection, a request in flight) or when a connection-limit burst had more arrivals than the limit; distinct = distinct (scenario, execution-hash) pairs"
}
func (c09) Components() ([]string, []string) {
	return []string{"proc.listener (bind retry loop, accept loop, registry, limit, Drain, Stop)", "redis.redisProc.Stop, redis.upstream.Stop/Serve, redis.session, redis.client", "tcp.tcpProc.Stop/StopListen/HandleConn"},
		[]string{"network (simnet: listen failures, temporary accept errors, silent and refusing backends)", "Redis cluster nodes", "TCP backends", "clients"}
}

func (p c09) genRedis(r *simhook.Rand, action string) *C09Scenario {
	sc := &C09Scenario{Proto: "redis", Action: action}
	rs := &RedisScenario{Meta: harness.GenMeta(r, 0)}
	rs.Env = world.RedisCfg{Masters: 1 + r.Intn(2)}
	rs.Env.ListenBusy = []int{0, 0, 1, 2, 3}[r.Intn(5)]
	keys := keyPool(r, 4, "k")
	rs.Conns = genTraffic(r, r.Intn(4), 8, keys, "c")
	for i := range rs.Conns {
		rs.Conns[i].Early = r.Chance(1, 2)
		for k := range rs.Conns[i].Reqs {
			rs.Conns[i].Reqs[k].Cut = nil
		}
	}
	sc.Backend = []string{"responsive", "responsive", "silent", "closed"}[r.Intn(4)]
	switch sc.Backend {
	case "silent":
		rs.Faults = append(rs.Faults, Fault{Kind: "silent", Node: 0, AfterStart: 1 + r.Intn(60)})
	case "closed":
		rs.Down = map[string]string{"0": "refuse"}
	}
	if r.Chance(1, 5) {
		rs.Faults = append(rs.Faults, Fault{Kind: "accept-error", AfterStart: 1 + r.Intn(80)})
	}
	rs.Class = "redis-" + action + "-" + sc.Backend
	if sc.Backend != "closed" && len(rs.Conns) > 0 && r.Chance(1, 3) {
		// a backend connection is lost in the middle of pipelined traffic: clients of the service come and go (the
		// old one winds down while requests already look for its successor) before the service is stopped
		for i := 0; i < 1+r.Intn(2); i++ {
			rs.Faults = append(rs.Faults, Fault{Kind: []string{"rst", "fin"}[r.Intn(2)], Node: r.Intn(rs.Env.Masters), AfterSend: r.Intn(150)})
		}
		for i := range rs.Conns {
			for k := range rs.Conns[i].Reqs {
				rs.Conns[i].Reqs[k].Wait = false
			}
			for len(rs.Conns[i].Reqs) < 6 {
				rs.Conns[i].Reqs = append(rs.Conns[i].Reqs, world.Request{Args: world.Bins("GET", keys[r.Intn(len(keys))])})
			}
		}
		rs.Class += "+reset"
	}
	sc.R = rs
	return sc
}

func (p c09) genTCP(r *simhook.Rand, action string) *C09Scenario {
	sc := &C09Scenario{Proto: "tcp", Action: action}
	ts := &TCPScenario{Meta: harness.GenMeta(r, 0)}
	ts.Env = world.TCPCfg{Backends: 1 + r.Intn(2), Policy: r.Intn(3)}
	ts.Env.ListenBusy = []int{0, 0, 1, 2, 3}[r.Intn(5)]
	ts.Env.IdleMs = []int{1000, 60000, 300000}[r.Intn(3)]
	sc.Backend = []string{"responsive", "responsive", "silent", "closed"}[r.Intn(4)]
	n := r.Intn(4)
	for i := 0; i < n; i++ {
		c := TCPConn{Name: fmt.Sprintf("c%d", i), C2S: StreamSpec{Len: r.Intn(40000)}, S2C: StreamSpec{Len: r.Intn(40000)}, After: r.Intn(60)}
		if r.Chance(1, 2) {
			// long-lived connection: neither side finishes by itself
			c.C2S.Finish, c.S2C.Finish = "none", "none"
		}
		if sc.Backend == "silent" {
			c.S2C = StreamSpec{Len: 0, Finish: "none"}
		}
		ts.Conns = append(ts.Conns, c)
	}
	if sc.Backend == "closed" {
		for i := 0; i < ts.Env.Backends; i++ {
			ts.Faults = append(ts.Faults, TCPFault{Kind: "backend-down", Node: i, AfterStart: 1})
		}
	}
	if r.Chance(1, 5) {
		ts.Faults = append(ts.Faults, TCPFault{Kind: "accept-error", AfterStart: 1 + r.Intn(60)})
	}
	ts.Class = "tcp-" + action + "-" + sc.Backend
	if r.Chance(1, 3) {
		// health checking: its monitor and checker tasks belong to the service and must be gone after Stop, also
		// when the health-check section was changed (or first given) by configuration updates while running
		if r.Chance(2, 3) {
			ts.Env.HC = &world.HCCfg{IntervalMs: []int{500, 2000, 10000}[r.Intn(3)], TimeoutMs: 400, Fall: 1 + r.Intn(3), Rise: 1 + r.Intn(3)}
		}
		for i := 0; i < r.Intn(3); i++ {
			ts.Faults = append(ts.Faults, TCPFault{Kind: "hc-update", AfterStart: 1 + r.Intn(120)})
		}
		ts.Class += "+hc"
	}
	sc.T = ts
	return sc
}

// GenBase: a run without stop/drain whose length tells where stop/drain can be injected.
func (p c09) GenBase(r *simhook.Rand, tier string, idx int) harness.Scenario {
	if r.Chance(1, 2) {
		return p.genRedis(r, "none")
	}
	return p.genTCP(r, "none")
}

func (p c09) withAction(b *C09Scenario, action string, afterStart int, late bool) *C09Scenario {
	cp := *b
	cp.Action = action
	cp.Late = late
	if b.R != nil {
		r := cloneRedis(b.R)
		r.Faults = append(r.Faults, Fault{Kind: action, AfterStart: afterStart})
		r.Class = strings.Replace(r.Class, "-none-", "-"+action+"-", 1)
		cp.R = r
	} else {
		t := cloneTCP(b.T)
		t.Faults = append(t.Faults, TCPFault{Kind: action, AfterStart: afterStart})
		t.Class = strings.Replace(t.Class, "-none-", "-"+action+"-", 1)
		cp.T = t
	}
	return &cp
}

func (p c09) Expand(base harness.Scenario, out harness.Outcome, r *simhook.Rand, tier string) []harness.Scenario {
	b := base.(*C09Scenario)
	n := out.Res.Probes["steps-after-start"]
	if n <= 0 {
		n = 40
	}
	maxPoints := 60
	if tier == "thorough" {
		maxPoints = 300
	}
	stride := 1
	if n > maxPoints {
		stride = (n + maxPoints - 1) / maxPoints
	}
	var outs []harness.Scenario
	off := r.Intn(stride)
	for s := 1 + off; s <= n+3; s += stride {
		action := "stop"
		if r.Chance(1, 3) {
			action = "drain"
		}
		outs = append(outs, p.withAction(b, action, s, r.Chance(1, 2)))
	}
	return outs
}

func (p c09) Gen(r *simhook.Rand, tier string, idx int) harness.Scenario {
	if r.Chance(1, 3) {
		// connection-limit bursts
		sc := &C09Scenario{Proto: "redis", Action: "limit"}
		rs := &RedisScenario{Meta: harness.GenMeta(r, 0)}
		rs.Env = world.RedisCfg{Masters: 1, ConnLimit: uint32(1 + r.Intn(4))}
		n := 1 + r.Intn(9)
		for i := 0; i < n; i++ {
			cs := ConnScript{Name: fmt.Sprintf("b%d", i), Early: r.Chance(1, 2)}
			for k := 0; k < 1+r.Intn(3); k++ {
				cs.Reqs = append(cs.Reqs, world.Request{Args: world.Bins("PING"), Wait: true, Gap: r.Intn(30)})
			}
			rs.Conns = append(rs.Conns, cs)
		}
		rs.Class = "redis-limit"
		sc.R = rs
		return sc
	}
	var b *C09Scenario
	if r.Chance(1, 2) {
		b = p.genRedis(r, "none")
	} else {
		b = p.genTCP(r, "none")
	}
	action := "stop"
	if r.Chance(1, 3) {
		action = "drain"
	}
	sc := p.withAction(b, action, 1+r.Intn(250), r.Chance(1, 2))
	if sc.R != nil && action == "stop" && len(sc.R.Conns) > 0 && sc.Backend != "closed" && r.Chance(1, 5) {
		// the stop (or, half of the time, the replacement of the whole host list, which stops every backend client too)
		// lands while the periodic hot-key collection is at work: placed by site, ten simulated seconds or more into
		// the run, instead of by step count
		f := &sc.R.Faults[len(sc.R.Faults)-1]
		f.AfterStart = 0
		f.Site = []string{"(*Collector).collect#", "(*Counter).Latch#", "(*Collector).evictStale#"}[r.Intn(3)]
		f.Nth = 1 + r.Intn(8)
		if r.Chance(1, 2) {
			sc.R.Faults = append(sc.R.Faults[:len(sc.R.Faults)-1], Fault{Kind: "host-replace", Site: f.Site, Nth: f.Nth}, Fault{Kind: "stop", Site: "(*Collector).collect#", Nth: f.Nth + 1 + r.Intn(20)})
		}
		sc.R.Class += "+during-collection"
	}
	if r.Chance(1, 6) && action == "drain" {
		// drain, then stop
		if sc.R != nil {
			sc.R.Faults = append(sc.R.Faults, Fault{Kind: "stop", AfterStart: 1 + r.Intn(400)})
		} else {
			sc.T.Faults = append(sc.T.Faults, TCPFault{Kind: "stop", AfterStart: 1 + r.Intn(400)})
		}
	}
	return sc
}

// afterStop: what must hold once Stop has returned and everything that was still runnable has run (a goroutine
// that is about to return is not a leak; one that is blocked is).
func afterStop(rt *simhook.Runtime, net *simnet.Net, addr string) *simrt.Violation {
	if net.Listening(addr) {
		return &simrt.Violation{Clause: "stop-closes-listener", Detail: "Stop has returned but the listening port is still open"}
	}
	for _, l := range net.Listeners {
		_ = l
	}
	if open := net.OpenSUTEnds(); len(open) > 0 {
		var names []string
		for _, e := range open {
			names = append(names, e.Name)
		}
		return &simrt.Violation{Clause: "stop-closes-connections", Detail: fmt.Sprintf("Stop has returned but the service still holds open connections: %v (d* = to backends, a* = from clients)", names)}
	}
	var alive []string
	for _, t := range rt.Tasks() {
		if t.State != simhook.StDead && !t.Harness {
			alive = append(alive, t.Role+"@"+t.Site)
		}
	}
	if len(alive) > 0 {
		return &simrt.Violation{Clause: "stop-leaves-no-goroutine", Detail: fmt.Sprintf("Stop has returned but goroutines of the service are still alive: %v", alive), Sites: alive}
	}
	return nil
}

func blockedHarness(rt *simhook.Runtime, role string) []string {
	var out []string
	for _, t := range rt.Tasks() {
		if t.State != simhook.StDead && t.Role == role {
			out = append(out, t.Role+"@"+t.Site)
		}
	}
	for _, t := range rt.Tasks() {
		if t.State != simhook.StDead && !t.Harness && (strings.Contains(t.Site, "Wait#") || strings.Contains(t.Site, "Serve#")) {
			out = append(out, t.Role+"@"+t.Site)
		}
	}
	return out
}

func (p c09) Run(t *testing.T, s harness.Scenario) harness.Outcome {
	sc := s.(*C09Scenario)
	if sc.Proto == "redis" {
		return p.runRedis(t, sc)
	}
	return p.runTCP(t, sc)
}

func (p c09) runRedis(t *testing.T, sc *C09Scenario) harness.Outcome {
	rs := sc.R
	w := newRedisWorld(rs)
	w.judgeSilent = false
	var bad *simrt.Violation
	held := false
	var late *world.Client
	maxServed := 0
	w.step = func(w *redisWorld) *simrt.Violation {
		if bad != nil {
			return bad
		}
		if w.stopRequested && !w.env.StopReturned && len(w.env.Net.OpenSUTEnds()) > 0 {
			held = true
		}
		if w.stopRequested && !held && (w.env.Net.Listening(world.ProxyAddr) || rs.Env.ListenBusy > 0) {
			held = true
		}
		if sc.Action == "limit" {
			served := 0
			for _, c := range w.env.Clients {
				if c.Replies > 0 && !c.EOF && !c.Reset {
					served++
				}
			}
			if served > maxServed {
				maxServed = served
			}
			if served > int(rs.Env.ConnLimit) {
				return &simrt.Violation{Clause: "connection-limit-respected", Detail: fmt.Sprintf("%d connections are being served concurrently, the limit is %d", served, rs.Env.ConnLimit)}
			}
		}
		if w.drainReturned && sc.Late && late == nil {
			// a client that arrives after StopListen returned must not be served
			late = world.NewClient(w.rt, w.env.Net, "late", world.ProxyAddr, []world.Request{{Args: world.Bins("PING")}})
			late.Start()
		}
		if late != nil && late.Replies > 0 {
			return &simrt.Violation{Clause: "drain-stops-accepting", Detail: "a connection that arrived after StopListen had returned was accepted and served"}
		}
		if w.env.StopReturned && w.env.Quiet() {
			if v := afterStop(w.rt, w.env.Net, world.ProxyAddr); v != nil {
				return v
			}
		}
		return nil
	}
	w.fin = func(w *redisWorld) *simrt.Violation {
		if w.stopRequested && !w.env.StopReturned {
			return &simrt.Violation{Clause: "stop-returns", Detail: fmt.Sprintf("Stop has not returned %v after it was called (backend: %s, listen failures before bind: %d); alive: %v", w.horizon(), sc.Backend, rs.Env.ListenBusy, w.rt.Alive(true)), Sites: blockedHarness(w.rt, "harness:stop")}
		}
		if w.drainTask != nil && !w.drainReturned {
			return &simrt.Violation{Clause: "drain-returns", Detail: fmt.Sprintf("StopListen has not returned after %v; alive: %v", w.horizon(), w.rt.Alive(true)), Sites: blockedHarness(w.rt, "harness:drain")}
		}
		if sc.Action == "limit" {
			want := int(rs.Env.ConnLimit)
			arrivals := 0
			for _, c := range w.env.Clients {
				if c.Connected {
					arrivals++
				}
			}
			if arrivals < want {
				want = arrivals
			}
			served := 0
			for _, c := range w.env.Clients {
				if c.Replies > 0 {
					served++
				}
			}
			// a client that connected so late (a starving schedule) that its request was never sent cannot have been
			// served yet: the clause is only judged when every arrival has put its request on the wire
			unsent := 0
			for _, c := range w.env.Clients {
				if c.Connected && len(c.Sent) == 0 {
					unsent++
				}
			}
			// clients never close in this class, so exactly min(limit, arrivals) connections are served
			if unsent == 0 && served != want {
				return &simrt.Violation{Clause: "connections-under-limit-served", Detail: fmt.Sprintf("%d of %d arrivals were served, the limit is %d and no served connection ever closed", served, len(rs.Conns), rs.Env.ConnLimit)}
			}
		}
		return nil
	}
	// established connections are left untouched by drain: the common liveness oracle requires their requests to
	// be answered; a drained service must not close them either
	if sc.Action == "drain" {
		prev := w.fin
		w.fin = func(w *redisWorld) *simrt.Violation {
			if v := prev(w); v != nil {
				return v
			}
			if w.stopRequested || sc.Backend != "responsive" {
				return nil
			}
			for _, c := range w.env.Clients {
				if c.Connected && c.Accepted() && c.Name != "late" && (c.EOF || c.Reset) && c.Replies < len(c.Sent) {
					return &simrt.Violation{Clause: "drain-keeps-established", Detail: fmt.Sprintf("connection %s, established before StopListen, was closed by the proxy with %d of %d requests answered", c.Name, c.Replies, len(c.Sent))}
				}
			}
			return nil
		}
	}
	out := runRedis(t, rs, w)
	if w.startedStep >= 0 {
		out.Res.Probes["steps-after-start"] = out.Res.Steps - int(w.startedStep)
		if sc.Action == "none" && out.Res.Probes["steps-after-start"] > 400 {
			out.Res.Probes["steps-after-start"] = 400
		}
	}
	out.Nontrivial = held || (sc.Action == "limit" && len(rs.Conns) > int(rs.Env.ConnLimit)) || (sc.Action == "drain" && w.drainReturned)
	return out
}

func (p c09) runTCP(t *testing.T, sc *C09Scenario) harness.Outcome {
	ts := sc.T
	w := newTCPWorld(ts)
	held := false
	lateTried, lateServed := false, false
	if sc.Backend == "silent" {
		w.onServerConn = func(w *tcpWorld, p *peer, b *world.Backend) {}
	}
	w.step = func(w *tcpWorld) *simrt.Violation {
		if w.stopRequested && !w.env.StopReturned && (len(w.env.Net.OpenSUTEnds()) > 0 || w.env.Net.Listening(world.TCPProxyAddr) || ts.Env.ListenBusy > 0) {
			held = true
		}
		if w.env.DrainReturned && sc.Late && !lateTried {
			lateTried = true
			e, err := w.env.Net.Connect(world.TCPProxyAddr, "late")
			if err == nil {
				e.OnData = func(e *simnet.End) { e.Take(); lateServed = true }
				e.Send([]byte("C9999:hello"))
			}
		}
		if lateServed {
			return &simrt.Violation{Clause: "drain-stops-accepting", Detail: "a connection that arrived after StopListen had returned was accepted and relayed"}
		}
		if w.env.StopReturned && w.env.Quiet() {
			if v := afterStop(w.rt, w.env.Net, world.TCPProxyAddr); v != nil {
				return v
			}
		}
		return nil
	}
	w.fin = func(w *tcpWorld) *simrt.Violation {
		if w.stopRequested && !w.env.StopReturned {
			return &simrt.Violation{Clause: "stop-returns", Detail: fmt.Sprintf("Stop has not returned %v after it was called (backend: %s, listen failures before bind: %d, idle timeout %dms); alive: %v", w.horizon(), sc.Backend, ts.Env.ListenBusy, ts.Env.IdleMs, w.rt.Alive(true)), Sites: blockedHarness(w.rt, "harness:stop")}
		}
		if w.drainRequested && !w.env.DrainReturned {
			return &simrt.Violation{Clause: "drain-returns", Detail: fmt.Sprintf("StopListen has not returned after %v; alive: %v", w.horizon(), w.rt.Alive(true)), Sites: blockedHarness(w.rt, "harness:drain")}
		}
		if sc.Action == "drain" && !w.stopRequested && sc.Backend == "responsive" {
			// established connections keep being relayed after a drain
			for _, c := range w.clients {
				if c.other == nil || anyFullClose(c, c.other) || c.spec.Finish == "none" {
					continue
				}
				if c.recvN != c.other.spec.Len {
					return &simrt.Violation{Clause: "drain-keeps-established", Detail: fmt.Sprintf("%s, established before StopListen, received %d of %d bytes", c.name, c.recvN, c.other.spec.Len)}
				}
			}
		}
		return nil
	}
	out := runTCP(t, ts, w)
	if w.startedStep >= 0 {
		n := out.Res.Steps - int(w.startedStep)
		if sc.Action == "none" && n > 400 {
			n = 400
		}
		out.Res.Probes["steps-after-start"] = n
	}
	out.Nontrivial = held || (sc.Action == "drain" && w.env.DrainReturned)
	return out
}

func (p c09) Shrink(s harness.Scenario) []harness.Scenario {
	sc := s.(*C09Scenario)
	var out []harness.Scenario
	if sc.R != nil {
		for _, c := range shrinkRedis(sc.R) {
			cp := *sc
			cp.R = c.(*RedisScenario)
			// keep the stop/drain fault
			has := false
			for _, f := range cp.R.Faults {
				if f.Kind == sc.Action {
					has = true
				}
			}
			if has || sc.Action == "limit" || sc.Action == "none" {
				out = append(out, &cp)
			}
		}
		for i, f := range sc.R.Faults {
			if f.AfterStart > 1 {
				cp := *sc
				cp.R = cloneRedis(sc.R)
				cp.R.Faults[i].AfterStart = (f.AfterStart + 1) / 2
				out = append(out, &cp)
			}
		}
		if sc.R.Env.ListenBusy > 0 {
			cp := *sc
			cp.R = cloneRedis(sc.R)
			cp.R.Env.ListenBusy--
			out = append(out, &cp)
		}
	} else {
		for _, c := range shrinkTCP(sc.T) {
			cp := *sc
			cp.T = c.(*TCPScenario)
			has := false
			for _, f := range cp.T.Faults {
				if f.Kind == sc.Action {
					has = true
				}
			}
			if has || sc.Action == "none" {
				out = append(out, &cp)
			}
		}
		for i, f := range sc.T.Faults {
			if f.AfterStart > 1 {
				cp := *sc
				cp.T = cloneTCP(sc.T)
				cp.T.Faults[i].AfterStart = (f.AfterStart + 1) / 2
				out = append(out, &cp)
			}
		}
		if sc.T.Env.ListenBusy > 0 {
			cp := *sc
			cp.T = cloneTCP(sc.T)
			cp.T.Env.ListenBusy--
			out = append(out, &cp)
		}
	}
	if sc.Late {
		cp := *sc
		cp.Late = false
		out = append(out, &cp)
	}
	return out
}

var _ = time.Second

// Package profiles holds one scenario profile (generator + world + oracle) per property.
package profiles

import (
	"fmt"
	"sort"
	"strings"
	"testing"
	"time"

	"github.com/samaritan-proxy/samaritan/host"
	"github.com/samaritan-proxy/samaritan/pb/config/protocol"
	pbredis "github.com/samaritan-proxy/samaritan/pb/config/protocol/redis"
	"github.com/samaritan-proxy/samaritan/pb/config/service"

	"verif.local/sim/cluster"
	"verif.local/sim/harness"
	"verif.local/sim/simhook"
	"verif.local/sim/simnet"
	"verif.local/sim/simrt"
	"verif.local/sim/world"
)

const defaultHorizon = 10 * time.Minute

type ConnScript struct {
	Name     string          `json:"name"`
	Reqs     []world.Request `json:"reqs"`
	SlowRead int             `json:"slow_read,omitempty"`
	MaxOut   int             `json:"max_outstanding,omitempty"`
	// LeaveAfter > 0: the client closes its connection after this many replies, in the middle of its pipeline
	LeaveAfter int  `json:"leave_after,omitempty"`
	Early      bool `json:"early,omitempty"` // connect immediately instead of waiting for a loaded routing table
}

// Fault is one entry of a fault plan.  Exactly one trigger is used:
// AfterSend (steps after the first client byte was sent), Site/Nth (the n-th time a task is seen
// parked at a site), or AtMs (simulated milliseconds after the first client byte).
type Fault struct {
	Kind      string `json:"kind"`
	Node      int    `json:"node,omitempty"`
	AfterSend int    `json:"after_send,omitempty"`
	Site      string `json:"site,omitempty"`
	Nth       int    `json:"nth,omitempty"`
	AtMs      int    `json:"at_ms,omitempty"`
	// OnCmd/Nth: fire right after a node has processed the Nth command of this name (its reply is still on its way)
	OnCmd string `json:"on_cmd,omitempty"`
	// AfterStart >= 1: fire AfterStart-1 steps after Start() of the service returned (1 = immediately)
	AfterStart int `json:"after_start,omitempty"`
	// layout change: slots [From, To] move (with their data) to node To2
	From int `json:"from,omitempty"`
	To   int `json:"to,omitempty"`
	Dst  int `json:"dst,omitempty"`
}

type RedisScenario struct {
	harness.Meta
	Env      world.RedisCfg `json:"env"`
	Conns    []ConnScript   `json:"conns"`
	Faults   []Fault        `json:"faults,omitempty"`
	HorizonS int            `json:"horizon_s,omitempty"`
	// KeepStrategy: the scheduling strategy stays in force although no fault is pending (see Draining)
	KeepStrategy bool `json:"keep_strategy,omitempty"`
	// MigStepMs: simulated milliseconds between two steps of a slot migration (0: as fast as the scheduler lets them)
	MigStepMs int  `json:"mig_step_ms,omitempty"`
	EndStop   bool `json:"end_stop,omitempty"`  // end the history with Stop (C20)
	EndClose  bool `json:"end_close,omitempty"` // end the history with every client closing its connection
	// Down: nodes that refuse ("refuse") or black-hole ("blackhole") connections from the start
	Down map[string]string `json:"down,omitempty"`
	// Probes are connections started once all faults have fired, the proxy is quiescent and SettleMs
	// of simulated time have passed; Probes2 follow the same way after Probes are answered.
	Probes   []ConnScript `json:"probes,omitempty"`
	Probes2  []ConnScript `json:"probes2,omitempty"`
	SettleMs int          `json:"settle_ms,omitempty"`
	// IdleFaults: pending faults fire once the clients are settled and the proxy is quiet (a connection
	// lost while idle matters to properties about healing)
	IdleFaults bool `json:"idle_faults,omitempty"`
}

type redisWorld struct {
	sc   *RedisScenario
	rt   *simhook.Runtime
	env  *world.RedisEnv
	step func(w *redisWorld) *simrt.Violation // extra per-step oracle
	fin  func(w *redisWorld) *simrt.Violation // extra final oracle
	post []func() *simrt.Violation            // oracles over the recorded history, run after the bubble has ended

	fired         []bool
	siteSeen      map[int]int // task id -> Steps value last counted
	siteCount     []int
	firstSend     int64
	firstSendAt   time.Time
	lastFault     time.Time
	faultsFired   map[string]int
	inflightAtF   int
	nontrivial    bool
	stopRequested bool
	hostTasks     []*simhook.Task
	netCounts     map[string]int
	inconclusive  bool
	judgeSilent   bool
	holdProbes    func() bool
	onProbeStart  func()

	migrations   int
	migSlots     map[int]bool
	migActive    int
	migSeq       int
	crashSteps   []int64
	strategyTask *simhook.Task // the configuration update that changed the read strategy (fault read-strategy)
	strategyStep int64
	strategyDone int64          // step at which that update was seen to have returned (0: not yet)
	crashSlots   []map[int]bool // per crash: the slots the crashed master owned, was migrating away or importing
	crashTimes   []time.Time
	crashMasters []int             // per crash: the master that died
	hostRemoved  map[int]time.Time // node -> when discovery withdrew it from the service's host list

	endPhase         int
	simStart         time.Time
	progress         int
	lastProgress     time.Time
	drainTask        *simhook.Task
	drainReturned    bool
	startedStep      int64
	probeRound       int
	probeStart       time.Time
	probeStartStep   []int64
	redirectsAtProbe []int
	probeClients     []*world.Client
	faultSteps       []int64 // step at which each fault fired (-1: not fired / nothing to act on)
	quietSteps       []int64 // steps at which the proxy was quiescent (sampled)
}

func newRedisWorld(sc *RedisScenario) *redisWorld {
	return &redisWorld{sc: sc, fired: make([]bool, len(sc.Faults)), siteSeen: map[int]int{}, siteCount: make([]int, len(sc.Faults)),
		firstSend: -1, faultsFired: map[string]int{}, startedStep: -1}
}

func (w *redisWorld) Setup(rt *simhook.Runtime) {
	w.rt = rt
	w.env = world.NewRedisEnv(rt, w.sc.Env)
	w.env.Start()
	for _, cs := range w.sc.Conns {
		c := w.env.AddClient(cs.Name, cs.Reqs)
		c.SlowRead, c.MaxOutstanding = cs.SlowRead, cs.MaxOut
		c.LeaveAfter = cs.LeaveAfter
		if cs.Early {
			c.Start()
		} else {
			cc := c
			w.env.WhenReady(func() { cc.Start() })
		}
	}
	if len(w.sc.Conns) == 0 {
		w.env.WhenReady(func() {})
	}
	for k, v := range w.sc.Down {
		var i int
		fmt.Sscanf(k, "%d", &i)
		if i < len(w.env.Cluster.Nodes) {
			o := simnet.DialRefused
			if v == "blackhole" {
				o = simnet.DialTimeout
			}
			w.env.Net.SetDown(w.env.Cluster.Nodes[i].Addr, o)
		}
	}
}

// startProbes starts the probe rounds when their preconditions hold (see RedisScenario.Probes).
func (w *redisWorld) startProbes() {
	if w.probeRound >= 2 || !w.allFaultsFired() || !w.env.Quiet() || !w.env.Ready() {
		return
	}
	if w.holdProbes != nil && w.holdProbes() {
		return
	}
	// probes are the "after healing" phase: they never start while a node is down, silent or unreachable (a
	// shrunk scenario may have lost the fault that heals it; such a scenario simply has no probe phase)
	for _, n := range w.env.Cluster.Nodes {
		if !n.Up || n.Silent || n.Stalled {
			return
		}
	}
	if w.env.Net.AnyDown() {
		return
	}
	settle := time.Duration(w.sc.SettleMs) * time.Millisecond
	ref := w.lastFault
	if w.probeStart.After(ref) {
		ref = w.probeStart
	}
	if ref.IsZero() {
		ref = w.firstSendAt
	}
	var round []ConnScript
	switch w.probeRound {
	case 0:
		if !w.phaseSettled(w.env.Clients) {
			return
		}
		round = w.sc.Probes
	case 1:
		if !w.phaseSettled(w.probeClients) {
			return
		}
		round = w.sc.Probes2
		// convergence is promised "within a bounded number of refresh rounds", not instantly: the second round
		// comes at least one simulated minute after the first (far below the horizon, far above any retry period)
		if settle < time.Minute {
			settle = time.Minute
		}
	}
	if len(round) == 0 {
		w.probeRound = 2
		return
	}
	if time.Since(ref) < settle {
		// let simulated time pass: nothing is runnable, the driver jumps to the next timer
		if !w.rt.HasEvent("probe-wake") {
			w.rt.AddEventAt(ref.Add(settle), "probe-wake", func() {})
		}
		return
	}
	w.probeRound++
	w.probeStart = time.Now()
	if w.onProbeStart != nil {
		w.onProbeStart()
	}
	w.probeStartStep = append(w.probeStartStep, w.rt.Step)
	w.redirectsAtProbe = append(w.redirectsAtProbe, w.env.Cluster.Redirects)
	for _, cs := range round {
		c := w.env.AddClient(cs.Name, cs.Reqs)
		c.SlowRead, c.MaxOutstanding = cs.SlowRead, cs.MaxOut
		w.probeClients = append(w.probeClients, c)
		c.Start()
	}
}

func (w *redisWorld) phaseSettled(cs []*world.Client) bool {
	for _, c := range cs {
		if !c.Settled() {
			return false
		}
	}
	return true
}

func (w *redisWorld) outstanding() int {
	n := 0
	for _, c := range w.env.Clients {
		if c.EOF || c.Reset {
			continue
		}
		for _, s := range c.Sent {
			if !s.Answered {
				n++
			}
		}
	}
	return n
}

func (w *redisWorld) clientByName(name string) *world.Client {
	for _, c := range w.env.Clients {
		if c.Name == name {
			return c
		}
	}
	return nil
}

func wrapRedisOption(o *protocol.RedisOption) *service.Config_RedisOption {
	return &service.Config_RedisOption{RedisOption: o}
}

// outstandingConns: number of connections with at least one unanswered request.
func (w *redisWorld) outstandingConns() int {
	n := 0
	for _, c := range w.env.Clients {
		if c.Replies < len(c.Sent) && !c.EOF && !c.Reset {
			n++
		}
	}
	return n
}

func (w *redisWorld) horizon() time.Duration {
	if w.sc.HorizonS > 0 {
		return time.Duration(w.sc.HorizonS) * time.Second
	}
	return defaultHorizon
}

func (w *redisWorld) Check() *simrt.Violation {
	if w.strategyTask != nil && w.strategyDone == 0 && w.strategyTask.State == simhook.StDead {
		w.strategyDone = w.rt.Step
	}
	w.env.Step()
	if w.env.BuildErr != nil {
		return &simrt.Violation{Clause: "harness-build", Detail: w.env.BuildErr.Error()}
	}
	if w.firstSend < 0 {
		for _, c := range w.env.Clients {
			if len(c.Sent) > 0 && c.Sent[0].InvokeStep > 0 {
				w.firstSend = c.Sent[0].InvokeStep
				w.firstSendAt = c.Sent[0].InvokeTime
			}
		}
	}
	// any client progress (connect, request issued, reply received) keeps the liveness horizon open
	prog := 0
	for _, c := range w.env.Clients {
		prog += len(c.Sent) + c.Replies
		if c.Connected {
			prog++
		}
	}
	if prog != w.progress {
		w.progress = prog
		w.lastProgress = time.Now()
	}
	// exactly-once, continuously: never a reply nobody asked for, never an unparsable stream
	for _, c := range w.env.Clients {
		if c.ParseErr != nil {
			return &simrt.Violation{Clause: "reply-stream-parses", Detail: fmt.Sprintf("client %s: %v; pending=%q", c.Name, c.ParseErr, trunc(c.Pending(), 80))}
		}
		if len(c.Extra) > 0 {
			return &simrt.Violation{Clause: "no-extra-reply", Detail: fmt.Sprintf("client %s received %d replies for %d requests; extra=%q", c.Name, c.Replies+1, len(c.Sent), trunc(c.Extra, 80))}
		}
	}
	if w.step != nil {
		if v := w.step(w); v != nil {
			return v
		}
	}
	before := len(w.faultsFired) + w.firedCount()
	w.fireFaults()
	if len(w.faultsFired)+w.firedCount() != before {
		return nil // a fault was injected in this step: quiescence is judged from the next step on
	}
	if w.env.Quiet() && (len(w.quietSteps) == 0 || w.quietSteps[len(w.quietSteps)-1] != w.rt.Step) {
		w.quietSteps = append(w.quietSteps, w.rt.Step)
	}
	w.startProbes()
	return nil
}

func trunc(b []byte, n int) []byte {
	if len(b) > n {
		return b[:n]
	}
	return b
}

func (w *redisWorld) fireFaults() {
	parked := w.rt.Parked()
	for i := range w.sc.Faults {
		f := &w.sc.Faults[i]
		if w.fired[i] {
			continue
		}
		due := false
		switch {
		case f.Site != "":
			for _, t := range parked {
				if strings.Contains(t.Site, f.Site) || strings.Contains(t.Role+"@"+t.Site, f.Site) {
					if w.siteSeen[t.ID*1000+i] != t.Steps+1 {
						w.siteSeen[t.ID*1000+i] = t.Steps + 1
						w.siteCount[i]++
					}
				}
			}
			n := f.Nth
			if n <= 0 {
				n = 1
			}
			due = w.siteCount[i] >= n && w.firstSend >= 0
		case f.AfterStart > 0:
			if w.env.Started && w.startedStep < 0 {
				w.startedStep = w.rt.Step
			}
			due = w.startedStep >= 0 && w.rt.Step-w.startedStep >= int64(f.AfterStart-1)
		case f.OnCmd != "":
			n := 0
			for _, le := range w.env.Cluster.Log {
				if len(le.Args) > 0 && strings.EqualFold(string(le.Args[0]), f.OnCmd) {
					n++
				}
			}
			due = n >= f.Nth && f.Nth > 0
		case f.AtMs > 0:
			due = w.firstSend >= 0 && time.Since(w.firstSendAt) >= time.Duration(f.AtMs)*time.Millisecond
		default:
			due = w.firstSend >= 0 && w.rt.Step-w.firstSend >= int64(f.AfterSend)
		}
		if !due && w.sc.IdleFaults && w.firstSend >= 0 && w.clientsSettled() && w.env.Quiet() {
			due = true
		}
		if !due && f.Kind == "unstall" && f.AtMs == 0 && w.firstSend >= 0 && len(parked) == 0 && len(w.rt.Events()) == 0 {
			due = true // everything waits for the stalled node: it answers again now
		}
		if !due {
			continue
		}
		w.fired[i] = true
		for len(w.faultSteps) < len(w.sc.Faults) {
			w.faultSteps = append(w.faultSteps, -1)
		}
		if w.inject(f) {
			w.faultSteps[i] = w.rt.Step
			w.faultsFired[f.Kind]++
			w.lastFault = time.Now()
			if w.outstanding() > 0 {
				w.nontrivial = true
			}
		}
		return // at most one fault per step
	}
}

func (w *redisWorld) freshHosts(addrs ...string) []*host.Host {
	var hs []*host.Host
	for _, a := range addrs {
		hs = append(hs, host.New(a))
	}
	return hs
}

// inject performs one fault; it reports whether the fault actually had something to act on.
func (w *redisWorld) inject(f *Fault) bool {
	c := w.env.Cluster
	if f.Node >= len(c.Nodes) {
		return false
	}
	n := c.Nodes[f.Node]
	w.rt.Logf("FAULT %s node=%d", f.Kind, f.Node)
	switch f.Kind {
	case "rst":
		return n.ResetConns() > 0
	case "fin":
		return n.CloseConns() > 0
	case "crash":
		if !n.Up {
			return false
		}
		n.Crash()
		return true
	case "restart":
		if n.Up {
			return false
		}
		n.Restart()
		return true
	case "silent":
		n.Silent = true
		return true
	case "stall":
		n.Stalled = true
		return true
	case "unstall":
		if !n.Stalled {
			return false
		}
		n.Unstall()
		return true
	case "clusterdown":
		// the node loses sight of the majority for a while: it refuses keyed commands with CLUSTERDOWN
		n.ClusterDown = true
		return true
	case "clusterup":
		if !n.ClusterDown {
			return false
		}
		n.ClusterDown = false
		return true
	case "refuse":
		w.env.Net.SetDown(n.Addr, simnet.DialRefused)
		return true
	case "blackhole":
		w.env.Net.SetDown(n.Addr, simnet.DialTimeout)
		return true
	case "up":
		n.Silent = false
		if !n.Up {
			n.Restart()
		}
		w.env.Net.SetDown(n.Addr, simnet.DialOK)
		return true
	case "mig-start":
		// slot f.From migrates from its current owner to master f.Dst, one simulator event per migration step
		slot := f.From
		src := int(c.Owner[slot])
		if src < 0 || src == f.Dst || f.Dst >= len(c.Nodes) || c.Nodes[f.Dst].MasterOf >= 0 || !c.Nodes[f.Dst].Up || !c.Nodes[src].Up {
			return false
		}
		if _, busy := c.Nodes[src].Migrating[slot]; busy || w.migSlots[slot] {
			return false
		}
		if w.migSlots == nil {
			w.migSlots = map[int]bool{}
		}
		w.migSlots[slot] = true
		w.migrations++
		w.migrate(slot, src, f.Dst, 0)
		return true
	case "failover", "failover-crash":
		// f.Node is the replica to promote
		if n.MasterOf < 0 || !n.Up || !c.Nodes[n.MasterOf].Up {
			return false
		}
		if f.Kind == "failover-crash" {
			w.crashSteps = append(w.crashSteps, w.rt.Step)
			w.crashTimes = append(w.crashTimes, time.Now())
			w.crashMasters = append(w.crashMasters, n.MasterOf)
			owned := map[int]bool{}
			for s, o := range c.Owner {
				if int(o) == n.MasterOf {
					owned[s] = true
				}
			}
			for s := range c.Nodes[n.MasterOf].Migrating {
				owned[s] = true
			}
			for s := range c.Nodes[n.MasterOf].Importing {
				owned[s] = true
			}
			w.crashSlots = append(w.crashSlots, owned)
		}
		c.Failover(f.Node, f.Kind == "failover")
		return true
	case "replica-move":
		// replica f.Node becomes a replica of master f.Dst (replica migration)
		if n.MasterOf < 0 || f.Dst >= len(c.Nodes) || c.Nodes[f.Dst].MasterOf >= 0 || n.MasterOf == f.Dst {
			return false
		}
		n.MasterOf = f.Dst
		n.Store = c.Nodes[f.Dst].Store
		return true
	case "freeze-view":
		n.FreezeView()
		return true
	case "thaw-view":
		if n.View == nil {
			return false
		}
		n.ThawView()
		return true
	case "layout":
		if f.Dst >= len(c.Nodes) || c.Nodes[f.Dst].MasterOf >= 0 {
			return false
		}
		moved := 0
		for sl := f.From; sl <= f.To && sl < cluster.NumSlots; sl++ {
			src := int(c.Owner[sl])
			if src < 0 || src == f.Dst || w.migSlots[sl] {
				continue // (a slot in the middle of a migration is not reassigned under it: not a legal cluster history)
			}
			c.MoveAllKeys(sl, src, f.Dst)
			c.Owner[sl] = int16(f.Dst)
			moved++
		}
		return moved > 0
	case "host-remove":
		if w.env.Proc == nil {
			return false
		}
		p := w.env.Proc
		hs := w.freshHosts(n.Addr)
		if w.hostRemoved == nil {
			w.hostRemoved = map[int]time.Time{}
		}
		w.hostRemoved[n.Idx] = time.Now()
		w.hostTasks = append(w.hostTasks, w.rt.Go("harness:host-remove", func() { p.OnSvcHostRemove(hs) }))
		return true
	case "host-add":
		if w.env.Proc == nil {
			return false
		}
		p := w.env.Proc
		hs := w.freshHosts(n.Addr)
		w.hostTasks = append(w.hostTasks, w.rt.Go("harness:host-add", func() { p.OnSvcHostAdd(hs) }))
		return true
	case "host-replace":
		if w.env.Proc == nil {
			return false
		}
		p := w.env.Proc
		var addrs []string
		for _, x := range c.Nodes {
			addrs = append(addrs, x.Addr)
		}
		hs := w.freshHosts(addrs...)
		w.hostTasks = append(w.hostTasks, w.rt.Go("harness:host-replace", func() { p.OnSvcAllHostReplace(hs) }))
		return true
	case "read-strategy":
		// configuration update: the read strategy becomes f.Dst (0 MASTER, 1 REPLICA, 2 BOTH)
		if w.env.Proc == nil {
			return false
		}
		p := w.env.Proc
		cfg := *w.env.SvcCfg
		var opt protocol.RedisOption
		if o := cfg.GetRedisOption(); o != nil {
			opt = *o
		}
		opt.ReadStrategy = pbredis.ReadStrategy(f.Dst)
		cfg.ProtocolOptions = wrapRedisOption(&opt)
		w.strategyTask = w.rt.Go("harness:config-update", func() { p.OnSvcConfigUpdate(&cfg) })
		w.hostTasks = append(w.hostTasks, w.strategyTask)
		w.strategyStep = w.rt.Step
		return true
	case "stop":
		if w.env.Proc == nil || w.stopRequested {
			return false
		}
		w.stopRequested = true
		w.env.Stop()
		return true
	case "drain":
		if w.env.Proc == nil || w.drainTask != nil {
			return false
		}
		p := w.env.Proc
		w.drainTask = w.rt.Go("harness:drain", func() { p.StopListen(); w.drainReturned = true })
		w.hostTasks = append(w.hostTasks, w.drainTask)
		return true
	case "accept-error":
		return w.env.Net.InjectAcceptError(world.ProxyAddr)
	}
	return false
}

func (w *redisWorld) firedCount() int {
	n := 0
	for _, f := range w.fired {
		if f {
			n++
		}
	}
	return n
}

// migrate runs one migration as a chain of simulator events: IMPORTING on the target, MIGRATING on the
// source, one MIGRATE per key (so the slot is half-migrated for a while), then SETSLOT NODE.
func (w *redisWorld) migrate(slot, src, dst, phase int) {
	c := w.env.Cluster
	w.migSeq++
	w.migActive++
	label := fmt.Sprintf("mig:%05d#%04d", slot, w.migSeq)
	at := time.Time{}
	if w.sc.MigStepMs > 0 {
		// a migration that takes its time: every step (set importing/migrating, one key, finalise) that long after the last
		at = time.Now().Add(time.Duration(w.sc.MigStepMs) * time.Millisecond)
	}
	w.rt.AddEventAt(at, label, func() {
		w.migActive--
		w.lastFault = time.Now()
		// a fail-over may have replaced an endpoint of the migration meanwhile
		if c.Nodes[src].MasterOf >= 0 {
			src = c.Nodes[src].MasterOf
		}
		if c.Nodes[dst].MasterOf >= 0 {
			dst = c.Nodes[dst].MasterOf
		}
		switch phase {
		case 0:
			c.SetImporting(slot, dst, src)
			w.rt.Logf("MIG slot %d importing@%d", slot, dst)
			w.migrate(slot, src, dst, 1)
		case 1:
			c.SetMigrating(slot, src, dst)
			w.rt.Logf("MIG slot %d migrating@%d", slot, src)
			w.migrate(slot, src, dst, 2)
		case 2:
			if c.MoveKey(slot, src, dst) {
				w.rt.Logf("MIG slot %d moved one key %d->%d", slot, src, dst)
				w.faultsFired["migration-move-key"]++
				w.migrate(slot, src, dst, 2)
			} else {
				w.migrate(slot, src, dst, 3)
			}
		case 3:
			// keys created on the source after the last MIGRATE cannot exist: the source answers ASK for missing keys
			c.MoveAllKeys(slot, src, dst)
			c.SetSlotOwner(slot, src, dst)
			delete(w.migSlots, slot)
			w.rt.Logf("MIG slot %d owner now %d", slot, dst)
			w.faultsFired["migration-complete"]++
		}
	})
}

func (w *redisWorld) allFaultsFired() bool {
	if w.migActive > 0 {
		return false
	}
	for _, f := range w.fired {
		if !f {
			return false
		}
	}
	return true
}

func (w *redisWorld) clientsSettled() bool {
	for _, c := range w.env.Clients {
		if !c.Settled() {
			return false
		}
	}
	return true
}

func (w *redisWorld) Done() bool {
	if !w.env.Ready() && len(w.sc.Conns) > 0 && !w.anyEarly() {
		return false
	}
	if !w.clientsSettled() {
		return false
	}
	if (len(w.sc.Probes) > 0 || len(w.sc.Probes2) > 0) && w.probeRound < 2 {
		if w.allFaultsFired() || w.sc.IdleFaults {
			return false
		}
	}
	if !w.env.Quiet() {
		return false
	}
	if w.stopRequested && !w.env.StopReturned {
		return false
	}
	for _, t := range w.hostTasks {
		if t.State != simhook.StDead {
			return false
		}
	}
	// faults that can no longer fire inside an operation are dropped: a fault while idle tests nothing
	if (w.sc.EndClose || w.sc.EndStop) && w.endPhase == 0 {
		// the history ends in quiescence: every client closes (or the service is stopped); all the
		// conditions above must then hold once more before the run is over
		w.endPhase = 1
		if w.sc.EndStop {
			w.stopRequested = true
			w.env.Stop()
		} else {
			for _, c := range w.env.Clients {
				c.Close()
			}
		}
		return false
	}
	return true
}

func (w *redisWorld) anyEarly() bool {
	for _, c := range w.sc.Conns {
		if c.Early {
			return true
		}
	}
	return false
}

// actorsPending: the scenario's own actors still have work to hand to the proxy (connections to open,
// requests to issue). The liveness horizon counts from the moment the last of it was issued.
func (w *redisWorld) actorsPending() bool {
	if !w.env.Ready() && len(w.sc.Conns) > 0 {
		for _, c := range w.sc.Conns {
			if !c.Early {
				return !w.stopRequested
			}
		}
	}
	for _, c := range w.env.Clients {
		if c.EOF || c.Reset || c.GaveUp || c.Left {
			continue
		}
		if !c.Connected {
			if w.stopRequested || w.drainTask != nil {
				continue
			}
			return true
		}
		if !c.AllSent() && c.Replies == len(c.Sent) {
			return true // nothing outstanding, more to send: the client is pacing itself
		}
	}
	return false
}

func (w *redisWorld) Deadline() time.Time {
	if w.simStart.IsZero() {
		w.simStart = time.Now()
	}
	if w.actorsPending() && time.Since(w.simStart) < 20*w.horizon() {
		return time.Time{}
	}
	if w.firstSend < 0 {
		if !w.lastFault.IsZero() {
			ref := w.lastFault
			if w.lastProgress.After(ref) {
				ref = w.lastProgress
			}
			return ref.Add(w.horizon())
		}
		// nothing sent yet: the start-up itself must not take forever
		return time.Time{}
	}
	ref := w.firstSendAt
	if w.lastFault.After(ref) {
		ref = w.lastFault
	}
	if w.probeStart.After(ref) {
		ref = w.probeStart
	}
	// a client that is still working through its script keeps the horizon open: the obligation is
	// "answered within H", counted from when the request was issued
	for _, c := range w.env.Clients {
		if c.LastSendAt.After(ref) {
			ref = c.LastSendAt
		}
	}
	if w.lastProgress.After(ref) {
		ref = w.lastProgress
	}
	// pending faults keep the deadline open for a while; a trigger that has not occurred by then never will
	if !w.allFaultsFired() {
		return w.firstSendAt.Add(3 * w.horizon())
	}
	return ref.Add(w.horizon())
}

// Draining: once every fault has fired the scheduler turns fair, so that liveness is judged on a schedule that does
// not starve anybody. A scenario whose point is an unfair schedule without any fault keeps its strategy (the driver's
// final drain is fair in any case).
func (w *redisWorld) Draining() bool {
	if w.sc.KeepStrategy || (len(w.sc.Faults) == 0 && w.sc.Sched%2 == 0) {
		// (half of the fault-free scenarios, by their schedule seed, keep their strategy too: otherwise a profile
		// without faults would only ever see the uniform scheduler)
		return false
	}
	return w.allFaultsFired()
}

// waitSites: where tasks that wait for a request to complete are blocked (stable signature part).
func (w *redisWorld) waitSites() []string {
	set := map[string]bool{}
	for _, t := range w.rt.Tasks() {
		if t.State == simhook.StDead || t.Harness {
			continue
		}
		if strings.Contains(t.Site, ".Wait#") {
			set[t.Role+"@"+t.Site] = true
		}
	}
	var out []string
	for s := range set {
		out = append(out, s)
	}
	sort.Strings(out)
	return out
}

// readerBlockedWitness names one specific final state: the reader of a backend connection is parked while it queues a
// redirected request (in Send, for the send lock or for room in a full queue) and the writer of a backend connection is
// parked handing a written request to the full queue that only such a reader empties.  Nothing can move any more.
func (w *redisWorld) readerBlockedWitness() string {
	reader, writer := false, false
	for _, t := range w.rt.Tasks() {
		if t.State == simhook.StDead || t.Harness {
			continue
		}
		if t.Role == "(*upstream).createClient#go1" && (strings.HasPrefix(t.Site, "(*client).Send#lock") || t.Site == "(*client).send#select2") {
			reader = true
		}
		if t.Role == "(*client).Start#go1" && t.Site == "(*client).loopWrite#select2" {
			writer = true
		}
	}
	if reader && writer {
		return "(backend reader parked in Send with the backend queues full) "
	}
	return ""
}

func (w *redisWorld) Final() *simrt.Violation {
	// a backend that stays connected and silent forever is an ongoing fault, not a state after faults stopped:
	// liveness is not judged then (the proxy has no request timeout; silence without connection loss is outside
	// C02's fault space, and Stop with silent backends is judged by C09)
	for _, n := range w.env.Cluster.Nodes {
		if (n.Silent || n.Stalled) && n.OpenConns() > 0 && !w.judgeSilent {
			if w.fin != nil {
				return w.fin(w)
			}
			return nil
		}
	}
	// every request on a connection that is still open has exactly one reply
	for _, c := range w.env.Clients {
		if c.EOF || c.Reset || !c.Connected || c.Left {
			continue
		}
		for _, s := range c.Sent {
			if !s.Answered {
				return &simrt.Violation{Clause: "reply-within-horizon",
					Detail: fmt.Sprintf("client %s request #%d %v unanswered %v after the last fault; connection still open; replies=%d/%d; %salive=%v",
						c.Name, s.Idx, describeReq(c.Script[s.Idx]), w.horizon(), c.Replies, len(c.Sent), w.readerBlockedWitness(), w.rt.Alive(false)),
					Sites: w.waitSites()}
			}
		}
	}
	if w.fin != nil {
		return w.fin(w)
	}
	return nil
}

// Freeze snapshots counters at verdict time (teardown traffic is not part of the run).
func (w *redisWorld) Freeze() {
	w.netCounts = map[string]int{}
	for k, v := range w.env.Net.Counts {
		w.netCounts[k] = v
	}
}

// Teardown stops the service and closes every client after the verdict (not judged).
func (w *redisWorld) Teardown() {
	for _, c := range w.env.Clients {
		c.Close()
	}
	for _, n := range w.env.Cluster.Nodes {
		n.Silent = false
		n.CloseConns()
	}
	w.env.Stop()
}

func describeReq(r world.Request) string {
	if len(r.Raw) > 0 {
		return fmt.Sprintf("raw:%q", trunc(r.Raw, 40))
	}
	var parts []string
	for i, a := range r.Args {
		if i >= 4 {
			parts = append(parts, fmt.Sprintf("..(%d args)", len(r.Args)))
			break
		}
		parts = append(parts, fmt.Sprintf("%q", trunc(a, 24)))
	}
	return "[" + strings.Join(parts, " ") + "]"
}

// linTimeout: real-time limit of one linearizability check. The checks run after the bubble has ended (w.post): inside
// it the clock is fake and a timeout would never fire while the checker is busy.
const linTimeout = 8 * time.Second

// progressTick tells the worker's watchdog that work outside the driver loop is advancing.
func progressTick() { simrt.Progress.Add(1) }

func runRedis(t *testing.T, sc *RedisScenario, w *redisWorld) harness.Outcome {
	res := simrt.Run(t, w, sc.Options())
	for _, f := range w.post {
		if res.Violation != nil {
			break
		}
		simrt.Progress.Add(1)
		res.Violation = f()
	}
	out := harness.Outcome{Res: res, Faults: w.faultsFired, Nontrivial: w.nontrivial}
	if w.env != nil {
		world.DropStats(w.env.Name)
		for k, v := range w.netCounts {
			if k == "frag" || k == "backpressure" || k == "dial-refused" || k == "dial-timeout" || k == "rst-on-closed" || k == "rst-on-close-unread" {
				out.Faults[k] += v
			}
		}
	}
	return out
}

// ---- generators shared by the Redis profiles ----

// keyPool returns n distinct short keys; with tags some share a hash tag.
func keyPool(r *simhook.Rand, n int, prefix string) []string {
	ks := make([]string, n)
	for i := range ks {
		switch r.Intn(6) {
		case 0:
			ks[i] = fmt.Sprintf("%s{t%d}:%d", prefix, r.Intn(3), i)
		default:
			ks[i] = fmt.Sprintf("%s%c%d", prefix, 'a'+rune(r.Intn(26)), i)
		}
	}
	return ks
}

func uniqueVal(conn string, k int, pad int) []byte {
	s := fmt.Sprintf("v:%s:%d:", conn, k)
	for len(s) < pad {
		s += "x"
	}
	return []byte(s)
}

// cutPoints draws sender-side fragmentation for an encoding of length n.
func cutPoints(r *simhook.Rand, n int) []int {
	if n < 2 {
		return nil
	}
	switch r.Intn(10) {
	case 0, 1: // a few cuts
		k := 1 + r.Intn(3)
		set := map[int]bool{}
		for i := 0; i < k; i++ {
			set[1+r.Intn(n-1)] = true
		}
		var out []int
		for c := range set {
			out = append(out, c)
		}
		sort.Ints(out)
		return out
	case 2: // byte dribble for short messages
		if n <= 40 {
			out := make([]int, 0, n-1)
			for i := 1; i < n; i++ {
				out = append(out, i)
			}
			return out
		}
	}
	return nil
}

package profiles

import (
	"fmt"
	"testing"
	"time"

	"verif.local/sim/harness"
	"verif.local/sim/simhook"
	"verif.local/sim/world"
)

// C05 — TCP: bytes are relayed unmodified, in order, both ways, with half-close.
type c05 struct{}

func init() { harness.Register(c05{}) }

func (c05) ID() string              { return "C05" }
func (c05) Empty() harness.Scenario { return &TCPScenario{} }
func (c05) NontrivialRule() string {
	return "a run is non-trivial when at least one connection carried data in both directions and one side half-closed before the other had finished; distinct = distinct (scenario, execution-hash) pairs"
}
func (c05) Components() ([]string, []string) {
	return []string{"tcp.tcpProc (HandleConn, pipeConn, copyBuffer, shared buffer pool, half-close)", "internal/net.Conn (deadlines, stats)", "proc.listener", "internal/lb", "host.Set"},
		[]string{"network (simnet: bounded buffers, fragmentation, FIN/half-close)", "client and backend application peers with keyed streams"}
}

func genStream(r *simhook.Rand, tier string) StreamSpec {
	var s StreamSpec
	edges := []int{0, 1, 2, 100, 16383, 16384, 16385, 32768, 32769, 49152, 5*16384 + 1}
	switch r.Intn(6) {
	case 0:
		s.Len = 0
	case 1, 2:
		s.Len = edges[r.Intn(len(edges))]
	case 3:
		s.Len = r.Intn(200)
	default:
		s.Len = r.Intn(90000)
	}
	if tier == "thorough" && r.Chance(1, 30) {
		s.Len = 1<<20 + r.Intn(1<<20)
	}
	switch r.Intn(4) {
	case 0:
	case 1:
		s.Chunks = []int{1 + r.Intn(64)}
		if s.Len > 4000 {
			s.Chunks = []int{500 + r.Intn(9000)}
		}
	default:
		for i := 0; i < 1+r.Intn(4); i++ {
			s.Chunks = append(s.Chunks, 1+r.Intn(40000))
		}
		if s.Len > 4000 && r.Chance(1, 2) {
			for i := range s.Chunks {
				s.Chunks[i] += 800
			}
		}
	}
	if r.Chance(1, 4) {
		for i := 0; i < 1+r.Intn(3); i++ {
			s.GapMs = append(s.GapMs, []int{0, 1, 50, 1000, 20000}[r.Intn(5)])
		}
	}
	return s
}

func (p c05) Gen(r *simhook.Rand, tier string, idx int) harness.Scenario {
	sc := &TCPScenario{Meta: harness.GenMeta(r, 0)}
	sc.Env = world.TCPCfg{Backends: 1 + r.Intn(3), Policy: r.Intn(3)}
	if r.Chance(1, 2) {
		sc.Env.FragNum, sc.Env.FragDen = 1, 1+r.Intn(4)
	}
	if r.Chance(1, 3) {
		sc.Env.BufCap = []int{1, 7, 100, 4096, 16384, 65536, 262144}[r.Intn(7)]
	}
	n := 1 + r.Intn(6)
	if r.Chance(1, 4) {
		// one connection without stream headers, so that a direction can carry zero bytes
		n = 1
		sc.Headerless = true
		sc.Class = "headerless"
	}
	if r.Chance(1, 4) {
		// a configured connection limit that is never reached: the listener's accounting wraps the connection
		sc.Env.ConnLimit = uint32(n + r.Intn(3))
	}
	if !sc.Headerless && r.Chance(1, 8) {
		// class "busy-beyond-idle-timeout": connections that live several idle-timeout periods but are never idle
		// for more than a third of one (the timeout counts from the last byte of a direction, not from its first)
		sc.Class = "busy-beyond-idle-timeout"
		T := []int{1500, 4000, 12000}[r.Intn(3)]
		sc.Env.IdleMs = T
		sc.SlackMs = []int{0, 1, T / 16}[r.Intn(3)]
		for i := 0; i < 1+r.Intn(2); i++ {
			mk := func() StreamSpec {
				chunk := 1 + r.Intn(600)
				nch := 12 + r.Intn(30)
				return StreamSpec{Len: chunk * nch, Chunks: []int{chunk}, GapMs: []int{T/8 + r.Intn(T/5)}}
			}
			sc.Conns = append(sc.Conns, TCPConn{Name: fmt.Sprintf("c%d", i), C2S: mk(), S2C: mk()})
		}
		sc.HorizonS = 600 + 60*T/1000
		if sc.Env.ConnLimit > 0 && int(sc.Env.ConnLimit) < len(sc.Conns) {
			sc.Env.ConnLimit = uint32(len(sc.Conns))
		}
		return sc
	}
	if !sc.Headerless && r.Chance(1, 8) {
		// class "other-host-removed": one backend refuses connections from the start (and is still a member: the
		// proxy learns that from dialing only) and is removed from the service while paced streams to the other
		// backends are under way. No relay was ever established to it, so no established relay may notice.
		sc.Class = "other-host-removed"
		nb := 2 + r.Intn(2)
		sc.Env.Backends = nb
		sc.Env.IdleMs = 600000
		down := r.Intn(nb)
		sc.Faults = []TCPFault{{Kind: "backend-down", Node: down, AfterStart: 1}, {Kind: "host-remove", Node: down, AtMs: 400 + r.Intn(2500)}}
		if r.Chance(1, 3) {
			sc.Faults = append(sc.Faults, TCPFault{Kind: "host-add", Node: down, AtMs: sc.Faults[1].AtMs + 200 + r.Intn(1000)})
		}
		for i := 0; i < 2+r.Intn(5); i++ {
			mk := func() StreamSpec {
				chunk := 100 + r.Intn(900)
				return StreamSpec{Len: chunk * (4 + r.Intn(30)), Chunks: []int{chunk}, GapMs: []int{50 + r.Intn(150)}}
			}
			sc.Conns = append(sc.Conns, TCPConn{Name: fmt.Sprintf("c%d", i), C2S: mk(), S2C: mk(), AfterMs: 100 + r.Intn(600)})
		}
		if sc.Env.ConnLimit > 0 && int(sc.Env.ConnLimit) < len(sc.Conns) {
			sc.Env.ConnLimit = uint32(len(sc.Conns))
		}
		sc.HorizonS = 900
		return sc
	}
	if !sc.Headerless && r.Chance(1, 10) {
		// class "slow-receiver": a client stops reading for several idle-timeout periods in the middle of a download
		// that is far larger than the socket buffers; the backend keeps sending.  The relay's write blocks for that
		// long; nothing was idle - data was waiting the whole time - so the download must arrive complete.
		sc.Class = "slow-receiver"
		T := []int{1000, 2500, 6000}[r.Intn(3)]
		sc.Env.Backends = 1 + r.Intn(2)
		sc.Env.IdleMs = T
		sc.Env.BufCap = []int{1024, 4096, 16384}[r.Intn(3)]
		sc.Env.ConnLimit = 0
		sc.SlackMs = []int{0, 1, T / 16}[r.Intn(3)]
		n := 1 + r.Intn(2)
		for i := 0; i < n; i++ {
			chunk := 500 + r.Intn(3000)
			down := StreamSpec{Len: chunk * (60 + r.Intn(100)), Chunks: []int{chunk}, GapMs: []int{T / 20}}
			up := StreamSpec{Len: 1 + r.Intn(200), Finish: "none"}
			sc.Conns = append(sc.Conns, TCPConn{Name: fmt.Sprintf("c%d", i), C2S: up, S2C: down})
		}
		sc.Faults = []TCPFault{{Kind: "receiver-pause", Node: 0, AtMs: T/2 + r.Intn(T), ForMs: T*2 + r.Intn(T*3)}}
		sc.HorizonS = 900
		return sc
	}
	if !sc.Headerless && r.Chance(1, 10) {
		// class "members-reannounced": discovery announces endpoints that are members already (same address, same type,
		// fresh objects - what an "endpoints added" update that repeats known ones looks like) while paced streams to
		// them are under way.  Nothing about the membership changes, so no established relay may notice.
		sc.Class = "members-reannounced"
		nb := 1 + r.Intn(3)
		sc.Env.Backends = nb
		sc.Env.IdleMs = 600000
		for i := 0; i < 1+r.Intn(3); i++ {
			sc.Faults = append(sc.Faults, TCPFault{Kind: "host-add", Node: r.Intn(nb), AtMs: 400 + r.Intn(3000)})
		}
		for i := 0; i < 2+r.Intn(5); i++ {
			mk := func() StreamSpec {
				chunk := 100 + r.Intn(900)
				return StreamSpec{Len: chunk * (4 + r.Intn(30)), Chunks: []int{chunk}, GapMs: []int{50 + r.Intn(150)}}
			}
			sc.Conns = append(sc.Conns, TCPConn{Name: fmt.Sprintf("c%d", i), C2S: mk(), S2C: mk(), AfterMs: 100 + r.Intn(600)})
		}
		if sc.Env.ConnLimit > 0 && int(sc.Env.ConnLimit) < len(sc.Conns) {
			sc.Env.ConnLimit = uint32(len(sc.Conns))
		}
		sc.HorizonS = 900
		return sc
	}
	defer func() {
		// no direction may be idle for longer than the idle timeout (the relay half-closes an idle direction, which
		// is the documented idle-timeout behaviour and outside this property): make the timeout exceed every pause
		total := 0
		for _, c := range sc.Conns {
			for _, sp := range []StreamSpec{c.C2S, c.S2C} {
				if len(sp.GapMs) == 0 {
					continue
				}
				chunks := 1
				if len(sp.Chunks) > 0 {
					min := sp.Chunks[0]
					for _, x := range sp.Chunks {
						if x < min {
							min = x
						}
					}
					chunks = (sp.Len+16)/min + 2
				}
				for i := 0; i < chunks; i++ {
					total += sp.GapMs[i%len(sp.GapMs)]
				}
			}
		}
		sc.Env.IdleMs = 300000 + 2*total
		sc.HorizonS = 600 + 3*total/1000
	}()
	for i := 0; i < n; i++ {
		c := TCPConn{Name: fmt.Sprintf("c%d", i), C2S: genStream(r, tier), S2C: genStream(r, tier)}
		switch r.Intn(6) {
		case 0: // client half-closes first, the backend finishes only after it saw the client's EOF
			c.S2C.WaitEOF = true
		case 1: // backend first
			c.C2S.WaitEOF = true
		case 2: // both at once, whoever is done
		case 3: // one side closes completely although the other may still be sending
			if r.Chance(1, 2) {
				c.C2S.Finish = "close"
			} else {
				c.S2C.Finish = "close"
			}
		default:
		}
		if r.Chance(1, 3) {
			c.After = r.Intn(80)
		}
		sc.Conns = append(sc.Conns, c)
	}
	return sc
}

// idleExcused: the direction snd -> proxy was quiet at the proxy's socket for at least the idle timeout (the sender
// paused, waited for something, or the network delivered late). The relay then half-closes that direction, which is
// the configured idle-timeout behaviour and not a relay fault: nothing is demanded of such a direction.
func idleExcused(sc *TCPScenario, snd *peer) bool {
	if snd == nil || sc.Env.IdleMs <= 0 {
		return false
	}
	return snd.end.Peer().QuietFor() >= time.Duration(sc.Env.IdleMs)*time.Millisecond
}

// idleExcusedAnyServer: used where the client cannot be attributed to a backend connection (no header arrived).
func idleExcusedAnyServer(sc *TCPScenario, w *tcpWorld) bool {
	for _, srv := range w.servers {
		if idleExcused(sc, srv) {
			return true
		}
	}
	return false
}

func (p c05) Run(t *testing.T, s harness.Scenario) harness.Outcome {
	sc := s.(*TCPScenario)
	w := newTCPWorld(sc)
	halfClose := false
	// eofDue: since when a receiver has had every byte of a sender that has half-closed. From there the end-of-stream
	// is four scheduling hops away (FIN to the proxy, the relay's read, its half-close, FIN to the receiver), each of
	// which the scheduler may delay by the timer slack at most; a relay that only ends the stream through its idle
	// timeout (minutes) has not propagated the half-close.
	eofDue := map[*peer]time.Time{}
	eofBound := 20*time.Second + 8*time.Duration(sc.SlackMs)*time.Millisecond
	w.step = func(w *tcpWorld) *simrtViolation {
		for _, p := range append(append([]*peer(nil), w.clients...), w.servers...) {
			if o := p.other; o != nil && o.doneSending && o.spec.Finish == "" && !anyFullClose(p, o) && !p.eof && !p.reset && !o.reset && p.recvN == o.spec.Len &&
				sc.Env.IdleMs > 0 && eofBound < time.Duration(sc.Env.IdleMs)*time.Millisecond*9/10 {
				if since, ok := eofDue[p]; !ok {
					eofDue[p] = time.Now()
				} else if time.Since(since) > eofBound && !idleExcused(sc, o) {
					return &simrtViolation{Clause: "eof-delivered", Detail: fmt.Sprintf("%s finished sending and half-closed, %s has had all %d bytes for %v and has not seen end-of-stream (idle timeout %dms)", o.name, p.name, p.recvN, time.Since(since), sc.Env.IdleMs), Sites: w.blockedSites("pipeConn")}
				}
			}
			if p.eof && !p.doneSending && p.other != nil && p.recvN > 0 && p.sent > 0 {
				halfClose = true
			}
			// end-of-stream only after all preceding bytes
			if p.eof && !p.reset && p.other != nil && p.other.doneSending && p.other.spec.Finish != "close" && p.recvN != p.other.spec.Len {
				return &simrtViolation{Clause: "eof-after-last-byte", Detail: fmt.Sprintf("%s saw end-of-stream after %d of the %d bytes %s sent", p.name, p.recvN, p.other.spec.Len, p.other.name)}
			}
			if p.eof && p.other != nil && !p.other.doneSending && !p.other.reset && p.other.spec.Finish != "close" && !anyFullClose(p, p.other) && !idleExcused(sc, p.other) {
				return &simrtViolation{Clause: "eof-only-when-sender-finished", Detail: fmt.Sprintf("%s saw end-of-stream although %s has only sent %d of %d bytes and has not closed", p.name, p.other.name, p.other.sent, p.other.total)}
			}
		}
		return nil
	}
	w.fin = func(w *tcpWorld) *simrtViolation {
		if len(w.clients) != len(sc.Conns) {
			return &simrtViolation{Clause: "connection-accepted", Detail: fmt.Sprintf("%d of %d client connections were established", len(w.clients), len(sc.Conns))}
		}
		for _, c := range w.clients {
			o := c.other
			var ci int
			fmt.Sscanf(c.header, "C%04d:", &ci)
			if sc.Conns[ci].C2S.Finish == "close" || sc.Conns[ci].S2C.Finish == "close" {
				continue // a full close may cut the opposite direction short (RST): only the prefix rule applies
			}
			if o == nil && sc.Headerless && len(w.servers) > 0 {
				o = w.servers[0]
				o.other = c
			}
			if o == nil {
				// no backend stream header arrived: fine only when the backend side had nothing to say and the proxy closed
				if c.recvN == 0 && (c.eof || c.reset) && noBackendFor(w, c) && !idleExcusedAnyServer(sc, w) && sc.Class != "other-host-removed" {
					// (in that class a backend refuses connections: a connection picked for it is closed, legitimately)
					return &simrtViolation{Clause: "connection-relayed", Detail: fmt.Sprintf("%s was closed by the proxy without being relayed to any backend although backends were available", c.name)}
				}
				if !c.eof && !c.reset {
					return &simrtViolation{Clause: "stream-complete", Detail: fmt.Sprintf("%s received nothing and saw no end-of-stream within the horizon", c.name), Sites: w.blockedSites("pipeConn")}
				}
				continue
			}
			for _, pr := range [][2]*peer{{c, o}, {o, c}} {
				rcv, snd := pr[0], pr[1]
				if anyFullClose(rcv, snd) {
					continue // a full close may legitimately cut the opposite direction short: only the prefix rule applies
				}
				if idleExcused(sc, snd) {
					continue
				}
				if rcv.recvN != snd.spec.Len {
					return &simrtViolation{Clause: "stream-complete", Detail: fmt.Sprintf("%s received %d of the %d bytes sent by %s (sender done=%v, receiver eof=%v reset=%v)", rcv.name, rcv.recvN, snd.spec.Len, snd.name, snd.doneSending, rcv.eof, rcv.reset), Sites: w.blockedSites("pipeConn")}
				}
				if !rcv.eof && snd.doneSending && snd.spec.Finish != "none" {
					return &simrtViolation{Clause: "eof-delivered", Detail: fmt.Sprintf("%s finished sending and half-closed, %s never saw end-of-stream", snd.name, rcv.name), Sites: w.blockedSites("pipeConn")}
				}
			}
		}
		return nil
	}
	out := runTCP(t, sc, w)
	out.Nontrivial = halfClose
	return out
}

func anyFullClose(a, b *peer) bool { return a.spec.Finish == "close" || b.spec.Finish == "close" }

func noBackendFor(w *tcpWorld, c *peer) bool { return len(w.env.Backends) > 0 }

func (p c05) Shrink(s harness.Scenario) []harness.Scenario { return shrinkTCP(s.(*TCPScenario)) }

package profiles

import (
	"bytes"
	"fmt"
	"io"
	"strings"
	"testing"

	"github.com/golang/snappy"

	"github.com/samaritan-proxy/samaritan/pb/config/protocol"
	pbredis "github.com/samaritan-proxy/samaritan/pb/config/protocol/redis"

	"verif.local/sim/cluster"
	"verif.local/sim/harness"
	"verif.local/sim/refredis"
	"verif.local/sim/simhook"
	"verif.local/sim/world"
)

// C13 — transparent compression never changes what clients read back.
type c13 struct{}

func init() { harness.Register(c13{}) }

type C13Scenario struct {
	RedisScenario
	Toggles []Toggle `json:"toggles,omitempty"`
}

// Toggle switches compression on/off (the option stays present) after a number of steps.
type Toggle struct {
	AfterSend int  `json:"after_send"`
	Enable    bool `json:"enable"`
}

func (c13) ID() string              { return "C13" }
func (c13) Empty() harness.Scenario { return &C13Scenario{} }
func (c13) NontrivialRule() string {
	return "a run is non-trivial when at least one value at or above the threshold was written while compression was enabled and read back; distinct = distinct (scenario, execution-hash) pairs"
}
func (c13) Components() ([]string, []string) {
	return []string{"redis.filter_compress", "redis.filter chain", "redis.compressor/snappy (pooled writers/readers)", "redis.util (pooled buffers)", "redis.upstream (resend on redirection)", "redis.request (MSET split)"},
		[]string{"network (simnet)", "Redis cluster nodes storing raw bytes (cluster+refredis)", "clients", "reference snappy decoder (github.com/golang/snappy)"}
}

func genValue(r *simhook.Rand, threshold int) []byte {
	var n int
	switch r.Intn(10) {
	case 0, 1, 2:
		n = threshold + r.Intn(5) - 2
	case 3:
		n = r.Intn(2)
	case 4:
		n = []int{4096, 65536, 20000, 300000}[r.Intn(4)]
	case 5:
		n = threshold * (2 + r.Intn(30))
	default:
		n = threshold + r.Intn(4*threshold+64)
	}
	if n < 0 {
		n = 0
	}
	b := make([]byte, n)
	switch r.Intn(6) {
	case 0: // all equal
		c := byte('a' + r.Intn(26))
		for i := range b {
			b[i] = c
		}
	case 1: // random (incompressible)
		copy(b, r.Bytes(n))
	case 2: // short period
		p := 1 + r.Intn(7)
		for i := range b {
			b[i] = byte('a' + i%p)
		}
	case 3: // half random, half run
		copy(b, r.Bytes(n/2))
		for i := n / 2; i < n; i++ {
			b[i] = 'z'
		}
	case 4: // text-like
		w := []string{"alpha ", "beta ", "gamma ", "delta\r\n", "\x00\x01"}
		for i := 0; i < n; {
			i += copy(b[i:], w[r.Intn(len(w))])
		}
	default: // long runs of few symbols
		for i := 0; i < n; {
			c := byte('0' + r.Intn(3))
			l := 1 + r.Intn(200)
			for j := 0; j < l && i < n; j++ {
				b[i] = c
				i++
			}
		}
	}
	if bytes.HasPrefix(b, []byte("(P$")) {
		b[0] = 'x'
	}
	return b
}

var c13Banned = []string{"APPEND", "EVAL", "SETBIT", "GETBIT", "SETRANGE", "GETRANGE"}

func (p c13) Gen(r *simhook.Rand, tier string, idx int) harness.Scenario {
	sc := &C13Scenario{}
	sc.Meta = harness.GenMeta(r, 0)
	th := []int{1, 2, 7, 16, 64, 128, 256, 1024, 4096}[r.Intn(9)]
	if r.Chance(1, 4) {
		th = 1 + r.Intn(4096)
	}
	sc.Env = world.RedisCfg{Masters: 1 + r.Intn(3), Compression: &world.Compression{Enable: true, Threshold: uint32(th)}}
	if r.Chance(1, 4) {
		sc.Env.FragNum, sc.Env.FragDen = 1, 3
	}
	if r.Chance(1, 12) {
		// class "late-section+redirect": the service starts without a compression section; one backend connection
		// exists before compression is switched on, the other is made afterwards; a write routed by the stale table
		// to the new connection is redirected to the old one, then read back
		sc.Class = "late-section+redirect"
		sc.Env.Masters = 2
		sc.Env.CompressionLate = true
		sc.Env.Compression.Enable = false
		ks := keysForNodes(r, 2, "ls", 3)
		old, fresh := r.Intn(2), 0
		fresh = 1 - old
		kx := ks[fresh][r.Intn(3)]
		cs := ConnScript{Name: "c0"}
		cs.Reqs = append(cs.Reqs, world.Request{Args: world.Bins("GET", ks[old][0]), Wait: true})
		cs.Reqs = append(cs.Reqs, world.Request{Args: append(world.Bins("SET", ks[old][1]), world.Bin(genValue(r, th))), Wait: true})
		big := world.Bin(genValue(r, th))
		cs.Reqs = append(cs.Reqs, world.Request{Args: append(world.Bins("SET", kx), big), Wait: true, Gap: 3000 + r.Intn(3000)})
		cs.Reqs = append(cs.Reqs, world.Request{Args: world.Bins("GET", kx), Wait: true})
		cs.Reqs = append(cs.Reqs, world.Request{Args: world.Bins("GET", ks[old][1]), Wait: true, Gap: r.Intn(130000)})
		cs.Reqs = append(cs.Reqs, world.Request{Args: world.Bins("GET", kx), Wait: true})
		sc.Conns = []ConnScript{cs}
		sc.Toggles = []Toggle{{AfterSend: 1 + r.Intn(30), Enable: true}}
		slot := cluster.Slot([]byte(kx))
		sc.Faults = []Fault{{Kind: "layout", From: slot, To: slot, Dst: old, AfterSend: 1 + r.Intn(30)}}
		return sc
	}
	if r.Chance(1, 12) {
		// class "redirected-reads": compressed values are read back while the slots of half of them have just moved:
		// those reads are answered MOVED and resent, so their replies are decompressed by the reader of another backend
		// connection than the one they were first sent on - at the same time as that connection's own replies.  Always
		// explored at statement granularity inside the decompression.
		sc.Class = "redirected-reads"
		sc.Env.Masters = 2
		sc.Env.Compression.Threshold = 8
		sc.Env.FragNum, sc.Env.FragDen = 0, 0
		ks := keysForNodes(r, 2, "rr", 4)
		a := r.Intn(2)
		wr := ConnScript{Name: "w"}
		for i, k := range ks[a] {
			wr.Reqs = append(wr.Reqs, world.Request{Args: append(world.Bins("SET", k), world.Bin(strings.Repeat(fmt.Sprintf("value-%d-of-%s.", i, k), 3+r.Intn(6)))), Wait: true})
		}
		sc.Conns = []ConnScript{wr}
		for ci := 0; ci < 2+r.Intn(2); ci++ {
			cs := ConnScript{Name: fmt.Sprintf("r%d", ci)}
			for i := 0; i < 8+r.Intn(24); i++ {
				cs.Reqs = append(cs.Reqs, world.Request{Args: world.Bins("GET", ks[a][r.Intn(4)])})
			}
			cs.Reqs[0].Gap = 8000
			sc.Conns = append(sc.Conns, cs)
		}
		for i := 0; i < 2; i++ {
			slot := cluster.Slot([]byte(ks[a][i]))
			sc.Faults = append(sc.Faults, Fault{Kind: "layout", From: slot, To: slot, Dst: 1 - a, AtMs: 5000})
		}
		sc.Dense = true
		sc.DenseFuncs = []string{"(*compressFilter).decompress"}
		return sc
	}
	if r.Chance(1, 14) {
		// class "header-like-sibling": one field of a hash holds a short value that merely begins like a compressed one
		// (stored verbatim, below the threshold; what is read back for THAT value is outside the property), the other
		// fields hold values that are stored compressed.  Array replies carry both: the genuine ones must read back right.
		sc.Class = "header-like-sibling"
		sc.Env.Masters = 1 + r.Intn(2)
		sc.Env.Compression.Threshold = 64
		cs := ConnScript{Name: "c0"}
		hk := "c0:hl:h"
		odd := []string{"(P$9.99 per unit) special offer", "(P$\x00\r\nnot a stream at all", "(P$\x00\r\n\xff\x06\x00\x00sNaPpY garbage", "(P$$$ money"}[r.Intn(4)]
		a := world.Bins("HMSET", hk, "f0", odd)
		for i := 1; i < 2+r.Intn(3); i++ {
			a = append(a, world.Bin(fmt.Sprintf("f%d", i)), world.Bin(strings.Repeat(fmt.Sprintf("genuine value %d ", i), 8+r.Intn(8))))
		}
		cs.Reqs = append(cs.Reqs, world.Request{Args: a, Wait: true})
		for i := 0; i < 3+r.Intn(4); i++ {
			switch r.Intn(4) {
			case 0:
				cs.Reqs = append(cs.Reqs, world.Request{Args: world.Bins("HMGET", hk, "f0", "f1", "f2", "f3"), Wait: true})
			case 1:
				cs.Reqs = append(cs.Reqs, world.Request{Args: world.Bins("HVALS", hk), Wait: true})
			case 2:
				cs.Reqs = append(cs.Reqs, world.Request{Args: world.Bins("HGETALL", hk), Wait: true})
			default:
				cs.Reqs = append(cs.Reqs, world.Request{Args: world.Bins("HGET", hk, "f1"), Wait: true})
			}
		}
		sc.Conns = []ConnScript{cs}
		return sc
	}
	toggles := r.Chance(1, 4)
	if toggles {
		sc.Class = "toggle"
		en := r.Chance(1, 2)
		sc.Env.Compression.Enable = en
		if !en && r.Chance(1, 2) {
			// the service is created without a compression section at all; the first toggle brings it
			sc.Env.CompressionLate = true
			sc.Class = "toggle-late-section"
		}
		at := 0
		for i := 0; i < 1+r.Intn(4); i++ {
			at += r.Intn(300)
			en = !en
			sc.Toggles = append(sc.Toggles, Toggle{AfterSend: at, Enable: en})
		}
	}
	// hash field names: short, or (a quarter of the scenarios) as long as the threshold and repetitive - a field name
	// is not a value: it is never compressed, whatever its length
	longNames := r.Chance(1, 4) && th <= 1024
	fname := func(i int) string {
		if longNames {
			return strings.Repeat("fld.", th/4+2) + fmt.Sprint(i)
		}
		return fmt.Sprintf("f%d", i)
	}
	redirect := r.Chance(1, 3)
	nconn := 1 + r.Intn(4)
	for ci := 0; ci < nconn; ci++ {
		name := fmt.Sprintf("c%d", ci)
		keys := keyPool(r, 2+r.Intn(4), name+":")
		cs := ConnScript{Name: name}
		nreq := 3 + r.Intn(20)
		for k := 0; k < nreq; k++ {
			key := keys[r.Intn(len(keys))]
			hkey := key + ":h"
			v := func() world.Bin { return world.Bin(genValue(r, th)) }
			var a []world.Bin
			switch x := r.Intn(100); {
			case x < 16:
				a = append(world.Bins("SET", key), v())
				if r.Chance(1, 5) {
					a = append(a, world.Bins([]string{"EX", "PX"}[r.Intn(2)], fmt.Sprint(100+r.Intn(100000)))...)
				}
			case x < 20:
				a = append(world.Bins("SETNX", key), v())
			case x < 25:
				a = append(world.Bins("GETSET", key), v())
			case x < 29:
				a = append(world.Bins([]string{"SETEX", "PSETEX"}[r.Intn(2)], key, fmt.Sprint(1+r.Intn(5000))), v())
			case x < 35:
				// No key twice in one MSET: the proxy splits MSET into one SET per key, and the order in which the
				// SETs of one key execute when one of them is redirected is C04's subject (known finding
				// program-order-across-redirection), not a matter of compression.
				a = world.Bins("MSET")
				used := map[string]bool{}
				for i := 0; i < 1+r.Intn(3); i++ {
					k, val := keys[r.Intn(len(keys))], v()
					if used[k] {
						continue
					}
					used[k] = true
					a = append(a, world.Bin(k), val)
				}
			case x < 43:
				a = world.Bins([]string{"HSET", "HMSET"}[r.Intn(2)], hkey)
				for i := 0; i < 1+r.Intn(4); i++ {
					a = append(a, world.Bin(fname(r.Intn(4))), v())
				}
			case x < 46:
				a = append(world.Bins("HSETNX", hkey, fname(r.Intn(4))), v())
			case x < 62:
				a = world.Bins("GET", key)
			case x < 68:
				a = world.Bins("MGET")
				for i := 0; i < 1+r.Intn(3); i++ {
					a = append(a, world.Bin(keys[r.Intn(len(keys))]))
				}
			case x < 76:
				a = world.Bins("HGET", hkey, fname(r.Intn(4)))
			case x < 81:
				a = world.Bins("HMGET", hkey, fname(0), fname(1), fname(2), fname(3))
			case x < 88:
				a = world.Bins([]string{"HGETALL", "HVALS"}[r.Intn(2)], hkey)
				if r.Chance(1, 3) {
					a = world.Bins("HSCAN", hkey, "0") // the one read whose reply nests the values one level deeper
				}
			case x < 91:
				a = world.Bins("STRLEN", key+":n")
			case x < 94:
				a = world.Bins("INCR", key+":n")
			default:
				if toggles {
					a = world.Bins("GET", key)
				} else {
					b := c13Banned[r.Intn(len(c13Banned))]
					switch b {
					case "APPEND":
						a = append(world.Bins(b, key), v())
					case "EVAL":
						a = world.Bins(b, "return 1", "1", key)
					case "SETBIT":
						a = world.Bins(b, key, "7", "1")
					case "GETBIT":
						a = world.Bins(b, key, "7")
					case "SETRANGE":
						a = world.Bins(b, key, "1", "xx")
					default:
						a = world.Bins(b, key, "0", "3")
					}
					if r.Chance(1, 2) {
						a[0] = world.Bin(strings.ToLower(string(a[0])))
					}
				}
			}
			rq := world.Request{Args: a, Wait: true}
			if nconn > 1 && !redirect && r.Chance(1, 2) {
				rq.Wait = false // several connections keep the pooled buffers and compressors busy concurrently
			}
			cs.Reqs = append(cs.Reqs, rq)
		}
		sc.Conns = append(sc.Conns, cs)
	}
	if redirect && sc.Env.Masters < 2 {
		sc.Env.Masters = 2
	}
	if redirect {
		sc.Class += "+redirect"
		m := sc.Env.Masters
		n := 1 + r.Intn(3)
		for i := 0; i < n; i++ {
			from := r.Intn(cluster.NumSlots)
			sc.Faults = append(sc.Faults, Fault{Kind: "layout", From: from, To: from + r.Intn(cluster.NumSlots-from), Dst: r.Intn(m), AfterSend: r.Intn(400)})
		}
		if r.Chance(1, 2) {
			k := sc.Conns[0].Name + ":"
			_ = k
			sc.Faults = append(sc.Faults, Fault{Kind: "mig-start", From: r.Intn(cluster.NumSlots), Dst: r.Intn(m), AfterSend: r.Intn(300)})
		}
	}
	return sc
}

// decodeStored: the documented storage form is header "(P$" + algorithm byte + CR LF followed by a snappy stream.
func decodeStored(v []byte) (orig []byte, compressed bool, err error) {
	if !bytes.HasPrefix(v, []byte("(P$")) {
		return v, false, nil
	}
	if len(v) < 6 || v[4] != '\r' || v[5] != '\n' {
		return nil, true, fmt.Errorf("malformed header %q", trunc(v, 8))
	}
	if _, ok := pbredis.Compression_Algorithm_name[int32(v[3])]; !ok || v[3] != byte(pbredis.Compression_SNAPPY) {
		return nil, true, fmt.Errorf("unknown algorithm byte %d", v[3])
	}
	out, rerr := io.ReadAll(snappy.NewReader(bytes.NewReader(v[6:])))
	if rerr != nil {
		return nil, true, fmt.Errorf("snappy stream does not decode: %v", rerr)
	}
	return out, true, nil
}

func (p c13) Run(t *testing.T, s harness.Scenario) harness.Outcome {
	sc := s.(*C13Scenario)
	w := newRedisWorld(&sc.RedisScenario)
	var bad *simrtViolation
	// expectations: each connection's program on its own private model (keys are private to a connection)
	models := map[string]*refredis.Store{}
	expected := map[string][]Expect{}
	anyBig := false
	shared := refredis.New()
	for _, cs := range sc.Conns {
		st := refredis.New()
		if sc.Class == "redirected-reads" {
			// one writer that has finished (seconds) before the readers begin: the readers see its data
			st = shared
		}
		models[cs.Name] = st
		var exp []Expect
		for _, rq := range cs.Reqs {
			name := strings.ToUpper(string(rq.Args[0]))
			banned := false
			for _, b := range c13Banned {
				if b == name {
					banned = true
				}
			}
			if banned {
				exp = append(exp, Expect{Kind: expError})
				continue
			}
			for _, a := range rq.Args[2:] {
				if len(a) >= int(sc.Env.Compression.Threshold) {
					anyBig = true
				}
			}
			exp = append(exp, expectRequest(st, rq, nil))
		}
		expected[cs.Name] = exp
	}
	toggled := make([]bool, len(sc.Toggles))
	w.step = func(w *redisWorld) *simrtViolation {
		if bad != nil {
			return bad
		}
		for _, c := range w.env.Clients {
			if c.OnReply == nil {
				c.OnReply = func(c *world.Client, s *world.Sent) {
					e := expected[c.Name][s.Idx]
					if !e.Matches(s.Reply) && bad == nil {
						bad = &simrtViolation{Clause: "read-back-equals-written",
							Detail: fmt.Sprintf("connection %s request #%d %s got %s, expected %s (threshold %d)", c.Name, s.Idx, describeReq(c.Script[s.Idx]), s.Reply.String(), e.String(), sc.Env.Compression.Threshold)}
					}
				}
			}
		}
		for i, tg := range sc.Toggles {
			if !toggled[i] && w.firstSend >= 0 && w.rt.Step-w.firstSend >= int64(tg.AfterSend) && w.env.Proc != nil {
				toggled[i] = true
				cfg := *w.env.SvcCfg
				var opt protocol.RedisOption
				if o := cfg.GetRedisOption(); o != nil {
					opt = *o
				}
				var cp pbredis.Compression
				if opt.Compression != nil {
					cp = *opt.Compression
				} else {
					cp = pbredis.Compression{Threshold: sc.Env.Compression.Threshold, Algorithm: pbredis.Compression_SNAPPY}
				}
				cp.Enable = tg.Enable
				opt.Compression = &cp
				cfg.ProtocolOptions = wrapRedisOption(&opt)
				p := w.env.Proc
				w.faultsFired["compression-toggle"]++
				w.rt.Logf("TOGGLE compression enable=%v", tg.Enable)
				w.hostTasks = append(w.hostTasks, w.rt.Go("harness:config-update", func() { p.OnSvcConfigUpdate(&cfg) }))
				break
			}
		}
		return bad
	}
	w.fin = func(w *redisWorld) *simrtViolation {
		if bad != nil {
			return bad
		}
		th := int(sc.Env.Compression.Threshold)
		// what the backends hold: the original bytes, or the documented header + a stream that expands to the
		// original and is shorter than the original; below the threshold always the original
		check := func(where string, stored, model []byte) *simrtViolation {
			if bytes.HasPrefix(model, []byte("(P$")) {
				// the client itself wrote a value that begins like a compressed one (class header-like-sibling): the
				// property makes no statement about such a value
				return nil
			}
			orig, comp, err := decodeStored(stored)
			if err != nil {
				return &simrtViolation{Clause: "stored-form-legal", Detail: fmt.Sprintf("%s: %v; stored %d bytes %q", where, err, len(stored), trunc(stored, 40))}
			}
			if !bytes.Equal(orig, model) {
				d2, c2, _ := decodeStored(orig)
				extra := ""
				if c2 && bytes.Equal(d2, model) {
					extra = " (the value was compressed twice)"
				}
				return &simrtViolation{Clause: "stored-form-legal", Detail: fmt.Sprintf("%s: stored value (compressed=%v, %d bytes) expands to %d bytes %q, written value has %d bytes %q%s", where, comp, len(stored), len(orig), trunc(orig, 30), len(model), trunc(model, 30), extra)}
			}
			if comp && len(stored) >= len(model) {
				return &simrtViolation{Clause: "compressed-is-shorter", Detail: fmt.Sprintf("%s: compressed form has %d bytes, the original %d", where, len(stored), len(model))}
			}
			if comp && len(model) < th {
				return &simrtViolation{Clause: "below-threshold-verbatim", Detail: fmt.Sprintf("%s: a %d byte value was compressed although the threshold is %d", where, len(model), th)}
			}
			return nil
		}
		for _, cs := range sc.Conns {
			c := w.clientByName(cs.Name)
			if c == nil || c.Replies != len(cs.Reqs) {
				continue // unanswered requests are the common oracle's business; the model is only exact at the end
			}
			st := models[cs.Name]
			for _, k := range st.Keys() {
				owner := w.env.Cluster.OwnerOfKey([]byte(k))
				if owner < 0 {
					continue
				}
				node := w.env.Cluster.Nodes[owner].Store
				if mv, ok := st.RawString(k); ok {
					sv, ok2 := node.RawString(k)
					if !ok2 {
						return &simrtViolation{Clause: "stored-form-legal", Detail: fmt.Sprintf("key %q is missing on its owner node %d", k, owner)}
					}
					if v := check(fmt.Sprintf("key %q", k), sv, mv); v != nil {
						return v
					}
				}
				if mh := st.RawHash(k); mh != nil {
					nh := node.RawHash(k)
					for f, mv := range mh {
						if v := check(fmt.Sprintf("hash %q field %q", k, f), nh[f], mv); v != nil {
							return v
						}
					}
				}
			}
		}
		// banned commands never reach a backend
		if len(sc.Toggles) == 0 {
			for _, le := range w.env.Cluster.Log {
				n := strings.ToUpper(string(le.Args[0]))
				for _, b := range c13Banned {
					if n == b {
						return &simrtViolation{Clause: "banned-command-not-forwarded", Detail: fmt.Sprintf("node %d received %q although compression is enabled", le.Node, trunc(bytes.Join(le.Args, []byte(" ")), 60))}
					}
				}
			}
		}
		return nil
	}
	out := runRedis(t, &sc.RedisScenario, w)
	out.Nontrivial = anyBig
	return out
}

func (p c13) Shrink(s harness.Scenario) []harness.Scenario {
	sc := s.(*C13Scenario)
	var out []harness.Scenario
	for _, c := range shrinkRedis(&sc.RedisScenario) {
		out = append(out, &C13Scenario{RedisScenario: *c.(*RedisScenario), Toggles: sc.Toggles})
	}
	for i := range sc.Toggles {
		t := append(append([]Toggle(nil), sc.Toggles[:i]...), sc.Toggles[i+1:]...)
		out = append(out, &C13Scenario{RedisScenario: *cloneRedis(&sc.RedisScenario), Toggles: t})
	}
	// shorter values
	for ci := range sc.Conns {
		for k := range sc.Conns[ci].Reqs {
			for ai, a := range sc.Conns[ci].Reqs[k].Args {
				if ai >= 2 && len(a) > 64 {
					c := cloneRedis(&sc.RedisScenario)
					na := append([]world.Bin(nil), c.Conns[ci].Reqs[k].Args...)
					na[ai] = a[:len(a)/2]
					c.Conns[ci].Reqs[k].Args = na
					out = append(out, &C13Scenario{RedisScenario: *c, Toggles: sc.Toggles})
				}
			}
		}
	}
	return out
}

package profiles

import (
	"context"
	"errors"
	"fmt"
	"io"
	"sort"
	"strings"
	"testing"
	"time"

	"github.com/samaritan-proxy/samaritan/config"
	"google.golang.org/grpc/codes"
	"google.golang.org/grpc/status"

	"verif.local/sim/harness"
	"verif.local/sim/simhook"
	"verif.local/sim/simrt"
)

// C16 — discovery subscriptions track dependencies and survive stream failures.
type c16 struct{}

func init() { harness.Register(c16{}) }

type SubOp struct {
	Unsub bool `json:"unsub,omitempty"`
	Name  int  `json:"name"`
	GapMs int  `json:"gap_ms,omitempty"`
}

// StreamFault: one failure of the discovery stream machinery.
type StreamFault struct {
	Kind  string `json:"kind"` // create | send | recv | send-stall (the n-th Send takes Stall scheduler steps: a slow peer)
	Stall int    `json:"stall,omitempty"`
	After int    `json:"after"`              // create: the n-th creation fails; send: the n-th Send overall fails; recv: steps after the stream came up
	Abs   int    `json:"abs_step,omitempty"` // enumeration: fire before this global step (recv/send on whatever stream is up)
	Err   string `json:"err,omitempty"`      // plain | grpc-canceled | ctx-canceled | grpc-unavailable | eof
}

func (f StreamFault) err() error {
	switch f.Err {
	case "grpc-canceled":
		return status.Error(codes.Canceled, "stream terminated by the remote side")
	case "ctx-canceled":
		return context.Canceled
	case "grpc-unavailable":
		return status.Error(codes.Unavailable, "transport is closing")
	case "eof":
		return io.EOF
	}
	return errStream
}

var errKinds = []string{"plain", "plain", "grpc-canceled", "ctx-canceled", "grpc-unavailable", "eof"}

type C16Scenario struct {
	harness.Meta
	Ops     []SubOp       `json:"ops"`
	Faults  []StreamFault `json:"faults,omitempty"`
	LateRun int           `json:"late_run_ms,omitempty"` // Run starts this long after the first Subscribe calls (no stream yet)
}

func (c16) ID() string              { return "C16" }
func (c16) Empty() harness.Scenario { return &C16Scenario{} }
func (c16) NontrivialRule() string {
	return "a run is non-trivial when at least one stream failure (create/send/recv) fired or more than 16 subscription changes were issued while no stream was up; distinct = distinct (scenario, execution-hash) pairs"
}
func (c16) Components() ([]string, []string) {
	return []string{"config.svcDiscoveryClient (Subscribe/Unsubscribe, queues, resubscribe, loopSend, loopRecv, retry back-off); shared by the config and endpoint discovery clients"},
		[]string{"scripted discovery stream (server side folds requests into a set)", "caller task issuing the dependency changes", "gRPC transport (not run)"}
}

func genSubOps(r *simhook.Rand, n, names int) []SubOp {
	var ops []SubOp
	for i := 0; i < n; i++ {
		op := SubOp{Name: r.Intn(names), Unsub: r.Chance(1, 3)}
		if r.Chance(1, 8) {
			op.GapMs = []int{1, 100, 900, 1300, 5000}[r.Intn(5)]
		}
		ops = append(ops, op)
	}
	return ops
}

func (p c16) GenBase(r *simhook.Rand, tier string, idx int) harness.Scenario {
	sc := &C16Scenario{Meta: harness.GenMeta(r, 0)}
	sc.Class = "enum-base"
	sc.Ops = genSubOps(r, 1+r.Intn(30), 1+r.Intn(12))
	return sc
}

func (p c16) Expand(base harness.Scenario, out harness.Outcome, r *simhook.Rand, tier string) []harness.Scenario {
	b := base.(*C16Scenario)
	n := out.Res.Steps
	maxPoints := 80
	if tier == "thorough" {
		maxPoints = 400
	}
	stride := 1
	if n > maxPoints {
		stride = (n + maxPoints - 1) / maxPoints
	}
	var outs []harness.Scenario
	for s := 1 + r.Intn(stride); s < n; s += stride {
		cp := *b
		cp.Class = "enum"
		cp.Faults = []StreamFault{{Kind: []string{"recv", "send", "create"}[r.Intn(3)], Abs: s, Err: errKinds[r.Intn(len(errKinds))]}}
		outs = append(outs, &cp)
	}
	return outs
}

func (p c16) Gen(r *simhook.Rand, tier string, idx int) harness.Scenario {
	sc := &C16Scenario{Meta: harness.GenMeta(r, 0)}
	sc.Class = "random"
	names := 1 + r.Intn(24)
	sc.Ops = genSubOps(r, 1+r.Intn(60), names)
	if r.Chance(1, 3) {
		// a burst of more than 16 distinct subscriptions while no stream is up
		sc.Class = "burst"
		var ops []SubOp
		for i := 0; i < 17+r.Intn(10); i++ {
			ops = append(ops, SubOp{Name: i})
		}
		sc.Ops = append(ops, sc.Ops...)
		sc.LateRun = []int{0, 10, 2000}[r.Intn(3)]
		if r.Chance(1, 2) {
			sc.Faults = append(sc.Faults, StreamFault{Kind: "create", After: 1}, StreamFault{Kind: "create", After: 2})
		}
	}
	if sc.Class == "random" && r.Chance(1, 4) {
		// a burst of more than 16 changes while a stream is up and its sender is stuck in a slow Send
		sc.Class = "burst-while-up"
		var ops []SubOp
		for i := 0; i < 17+r.Intn(14); i++ {
			ops = append(ops, SubOp{Name: 30 + i, Unsub: false})
		}
		at := r.Intn(len(sc.Ops) + 1)
		sc.Ops = append(append(append([]SubOp(nil), sc.Ops[:at]...), ops...), sc.Ops[at:]...)
		sc.Faults = append(sc.Faults, StreamFault{Kind: "send-stall", After: 1 + r.Intn(3), Stall: 100 + r.Intn(4000)})
	}
	for i := 0; i < r.Intn(5); i++ {
		switch r.Intn(3) {
		case 0:
			sc.Faults = append(sc.Faults, StreamFault{Kind: "create", After: 1 + r.Intn(4), Err: errKinds[r.Intn(len(errKinds))]})
		case 1:
			sc.Faults = append(sc.Faults, StreamFault{Kind: "send", After: 1 + r.Intn(8), Err: errKinds[r.Intn(len(errKinds))]})
		default:
			sc.Faults = append(sc.Faults, StreamFault{Kind: "recv", After: r.Intn(120), Err: errKinds[r.Intn(len(errKinds))]})
		}
	}
	return sc
}

var errStream = errors.New("scripted stream failure")

type simStream struct {
	id     int
	w      *c16World
	broken bool
	err    error
	fail   chan struct{}
	set    map[string]bool
	upStep int64
	reqs   int
	// names for which one request carried both a subscribe and an unsubscribe (application order unknown)
	ambiguous map[string]bool
}

func (s *simStream) Send(sub, unsub []string) error {
	simhook.Yield("harness.stream.Send")
	w := s.w
	w.sends++
	if s.broken {
		return s.err
	}
	for i := range w.sc.Faults {
		f := &w.sc.Faults[i]
		if f.Kind == "send" && !w.fired[i] && f.Abs == 0 && w.sends == f.After {
			w.fired[i] = true
			w.fire("stream-send-fail")
			s.breakNow(f.err())
			return s.err
		}
		if f.Kind == "send-stall" && !w.fired[i] && w.sends == f.After {
			// a slow peer: this Send does not return for a while (flow control), everything else goes on
			w.fired[i] = true
			w.fire("stream-send-stall")
			until := w.rt.Step + int64(f.Stall)
			for w.rt.Step < until && !s.broken {
				simhook.Yield("harness.stream.Send#stalled")
			}
			if s.broken {
				return s.err
			}
		}
	}
	s.reqs++
	in := map[string]bool{}
	for _, n := range sub {
		in[n] = true
	}
	for _, n := range unsub {
		if in[n] {
			s.ambiguous[n] = true
		}
	}
	for _, n := range sub {
		s.set[n] = true
	}
	for _, n := range unsub {
		if !s.ambiguous[n] {
			delete(s.set, n)
		}
	}
	for _, n := range sub {
		if !in[n] {
			continue
		}
	}
	// a later unambiguous request settles an earlier ambiguity
	for _, n := range sub {
		found := false
		for _, u := range unsub {
			if u == n {
				found = true
			}
		}
		if !found {
			delete(s.ambiguous, n)
		}
	}
	for _, n := range unsub {
		found := false
		for _, u := range sub {
			if u == n {
				found = true
			}
		}
		if !found {
			delete(s.ambiguous, n)
			delete(s.set, n)
		}
	}
	w.rt.Logf("stream %d recv sub=%v unsub=%v", s.id, sub, unsub)
	return nil
}

func (s *simStream) Recv() error {
	simhook.Yield("harness.stream.Recv")
	if s.broken {
		return s.err
	}
	<-s.fail
	return s.err
}

func (s *simStream) breakNow(err error) {
	if !s.broken {
		s.broken = true
		s.err = err
		close(s.fail)
	}
}

type c16World struct {
	taskWorld
	sc                *C16Scenario
	client            *config.VerifDiscoveryClient
	streams           []*simStream
	creations         int
	sends             int
	fired             []bool
	faults            map[string]int
	lastFault         time.Time
	want              map[string]bool // the caller's current dependency set
	opsDone           int
	pendingBurst      int
	maxQueuedNoStream int
	cancel            func()
}

// Teardown ends the client after the verdict (inside the bubble).
func (w *c16World) Teardown() {
	if w.cancel != nil {
		w.cancel()
	}
	for _, st := range w.streams {
		st.breakNow(errStream)
	}
}

func (w *c16World) fire(kind string) {
	w.faults[kind]++
	w.lastFault = time.Now()
	w.rt.Logf("FAULT %s", kind)
}

func (w *c16World) cur() *simStream {
	if len(w.streams) == 0 {
		return nil
	}
	s := w.streams[len(w.streams)-1]
	if s.broken {
		return nil
	}
	return s
}

func name(i int) string { return fmt.Sprintf("svc-%02d", i) }

func (p c16) Run(t *testing.T, s harness.Scenario) harness.Outcome {
	sc := s.(*C16Scenario)
	w := &c16World{sc: sc, fired: make([]bool, len(sc.Faults)), faults: map[string]int{}, want: map[string]bool{}}
	var ctx context.Context
	var callerTask, runTask *simhook.Task
	w.setup = func(tw *taskWorld) {
		ctx, w.cancel = context.WithCancel(context.Background())
		w.client = config.VerifNewSvcDiscoveryClient("verif", func(ctx context.Context) (config.VerifStream, error) {
			simhook.Yield("harness.newStream")
			w.creations++
			for i := range sc.Faults {
				f := &sc.Faults[i]
				if f.Kind == "create" && !w.fired[i] && f.Abs == 0 && w.creations == f.After {
					w.fired[i] = true
					w.fire("stream-create-fail")
					return nil, f.err()
				}
			}
			for i := range sc.Faults {
				f := &sc.Faults[i]
				if f.Kind == "create" && !w.fired[i] && f.Abs > 0 && w.rt.Step >= int64(f.Abs) {
					w.fired[i] = true
					w.fire("stream-create-fail")
					return nil, f.err()
				}
			}
			st := &simStream{id: len(w.streams), w: w, fail: make(chan struct{}), set: map[string]bool{}, upStep: w.rt.Step, ambiguous: map[string]bool{}}
			w.streams = append(w.streams, st)
			w.rt.Logf("stream %d up", st.id)
			return st, nil
		})
		startRun := func() { runTask = w.rt.Go("harness:discovery-run", func() { w.client.Run(ctx) }) }
		if sc.LateRun > 0 {
			w.rt.AddEventAt(time.Now().Add(time.Duration(sc.LateRun)*time.Millisecond), "start-run", startRun)
		} else {
			startRun()
		}
		callerTask = tw.Go("harness:dependency-caller", func() {
			for _, op := range sc.Ops {
				if op.GapMs > 0 {
					simhook.Sleep(time.Duration(op.GapMs) * time.Millisecond)
				}
				if op.Unsub {
					w.client.Unsubscribe(name(op.Name))
					delete(w.want, name(op.Name))
				} else {
					w.client.Subscribe(name(op.Name))
					w.want[name(op.Name)] = true
				}
				w.opsDone++
			}
		})
	}
	w.check = func(tw *taskWorld) *simrt.Violation {
		// step- and time-triggered failures of the stream that is currently up
		for i := range sc.Faults {
			f := &sc.Faults[i]
			if w.fired[i] {
				continue
			}
			st := w.cur()
			switch {
			case f.Kind == "recv" && f.Abs == 0 && st != nil && w.rt.Step-st.upStep >= int64(f.After):
				w.fired[i] = true
				w.fire("stream-recv-fail")
				st.breakNow(f.err())
			case (f.Kind == "recv" || f.Kind == "send") && f.Abs > 0 && w.rt.Step >= int64(f.Abs):
				w.fired[i] = true
				if st != nil {
					w.fire("stream-" + f.Kind + "-fail")
					st.breakNow(f.err())
				}
			}
		}
		if w.cur() == nil && w.opsDone > w.maxQueuedNoStream && len(w.streams) == 0 {
			w.maxQueuedNoStream = w.opsDone
		}
		return nil
	}
	settled := func() bool {
		st := w.cur()
		if st == nil || callerTask == nil || callerTask.State != simhook.StDead {
			return false
		}
		for i, f := range sc.Faults {
			if !w.fired[i] && f.Kind != "create" && f.Kind != "send" {
				return false
			}
		}
		return w.matches(st) == ""
	}
	w.done = func(tw *taskWorld) bool { return settled() && len(w.rt.Parked()) == 0 }
	w.taskWorld.final = func(tw *taskWorld) *simrt.Violation {
		if callerTask.State != simhook.StDead {
			return &simrt.Violation{Clause: "subscribe-returns", Detail: fmt.Sprintf("a Subscribe/Unsubscribe call (operation %d of %d) has not returned %v after the last stream failure; %d streams were created; tasks: %v", w.opsDone+1, len(sc.Ops), w.horizon, len(w.streams), w.rt.Alive(true)), Sites: blockedOf(w.rt, callerTask, runTask)}
		}
		st := w.cur()
		if st == nil {
			return &simrt.Violation{Clause: "stream-reestablished", Detail: fmt.Sprintf("no discovery stream is up %v after the last failure (%d creations, %d faults fired); tasks: %v", w.horizon, w.creations, len(w.faults), w.rt.Alive(true)), Sites: blockedOf(w.rt, callerTask, runTask)}
		}
		if d := w.matches(st); d != "" {
			return &simrt.Violation{Clause: "subscribed-equals-dependencies", Detail: fmt.Sprintf("stream %d has been up since step %d with no failure afterwards; %s", st.id, st.upStep, d)}
		}
		return nil
	}
	w.horizon = defaultHorizon
	res := simrt.Run(t, w, sc.Options())
	nf := 0
	for _, n := range w.faults {
		nf += n
	}
	return harness.Outcome{Res: res, Faults: w.faults, Nontrivial: nf > 0 || w.maxQueuedNoStream > 16}
}

// matches compares what the server holds for the stream with the caller's dependency set ("" = equal).
func (w *c16World) matches(st *simStream) string {
	var missing, extra []string
	for n := range w.want {
		if !st.set[n] && !st.ambiguous[n] {
			missing = append(missing, n)
		}
	}
	for n := range st.set {
		if !w.want[n] && !st.ambiguous[n] {
			extra = append(extra, n)
		}
	}
	sort.Strings(missing)
	sort.Strings(extra)
	if len(missing)+len(extra) == 0 {
		return ""
	}
	return fmt.Sprintf("the server's set for this stream lacks %v and has in excess %v (dependency set has %d names, %d requests were received on the stream)", missing, extra, len(w.want), st.reqs)
}

func blockedOf(rt *simhook.Runtime, ts ...*simhook.Task) []string {
	var out []string
	for _, t := range rt.Tasks() {
		if t.State == simhook.StDead {
			continue
		}
		if strings.HasPrefix(t.Role, "harness:") || strings.Contains(t.Role, "svcDiscoveryClient") {
			out = append(out, t.Role+"@"+t.Site)
		}
	}
	return out
}

func (w *c16World) Deadline() time.Time {
	ref := w.taskWorld.progress
	if w.lastFault.After(ref) {
		ref = w.lastFault
	}
	return ref.Add(w.horizon)
}

func (p c16) Shrink(s harness.Scenario) []harness.Scenario {
	sc := s.(*C16Scenario)
	var out []harness.Scenario
	cp := func() *C16Scenario {
		c := *sc
		c.Ops = append([]SubOp(nil), sc.Ops...)
		c.Faults = append([]StreamFault(nil), sc.Faults...)
		return &c
	}
	if n := len(sc.Ops); n > 1 {
		c := cp()
		c.Ops = c.Ops[:n/2]
		out = append(out, c)
		c = cp()
		c.Ops = c.Ops[n/2:]
		out = append(out, c)
		if n <= 24 {
			for i := range sc.Ops {
				c := cp()
				c.Ops = append(c.Ops[:i:i], c.Ops[i+1:]...)
				out = append(out, c)
			}
		}
	}
	for i := range sc.Faults {
		c := cp()
		c.Faults = append(c.Faults[:i:i], c.Faults[i+1:]...)
		out = append(out, c)
	}
	for i, o := range sc.Ops {
		if o.GapMs > 0 {
			c := cp()
			c.Ops[i].GapMs = 0
			out = append(out, c)
		}
	}
	if sc.LateRun > 0 {
		c := cp()
		c.LateRun = 0
		out = append(out, c)
	}
	if sc.Strategy != "uniform" {
		c := cp()
		c.Strategy = "uniform"
		out = append(out, c)
	}
	return out
}

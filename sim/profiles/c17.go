package profiles

import (
	"bytes"
	"fmt"
	"net"
	"os"
	"sync"
	"sync/atomic"
	"syscall"
	"testing"
	"time"
	"unsafe"

	"github.com/samaritan-proxy/samaritan/cmd/samaritan/hotrestart"

	"verif.local/sim/harness"
	"verif.local/sim/simhook"
	"verif.local/sim/simrt"
)

// C17 — hot restart: the control channel performs each step once, in order, and survives bad frames.
//
// The control channel is a real AF_UNIX socket (the package works on *net.UnixConn, there is no seam to
// substitute it), so this profile runs outside the synctest bubble: the kernel is the transport, the child is a
// seed-scripted peer that writes one frame at a time and waits for the outcome, which makes every run a pure
// function of the scenario. The only real-time element is the 20 s guard on an expected reply.
type c17 struct{}

func init() { harness.Register(c17{}) }

type C17Frame struct {
	Typ      int  `json:"typ"`
	Declared int  `json:"declared"`        // value of the length field
	Actual   int  `json:"actual"`          // payload bytes really carried; -1, -2: only 2, 1 header bytes are sent
	Typed    bool `json:"typed,omitempty"` // sent with the package's own sendMessage (Declared == Actual)
}

type C17Child struct {
	Frames []C17Frame `json:"frames,omitempty"`
	// API: the child is a real Restarter (ParentID set) calling these methods in order: admin, localconf, drain, terminate
	API []string `json:"api,omitempty"`
	// Drop: the child closes its connection after frame DropAt; Unread: without reading that frame's reply
	Drop   bool `json:"drop,omitempty"`
	DropAt int  `json:"drop_at,omitempty"`
	Unread bool `json:"unread,omitempty"`
	// QuietMs > 0: the child stays connected and silent for this long (real time) before it sends frame QuietAt
	QuietMs int `json:"quiet_ms,omitempty"`
	QuietAt int `json:"quiet_at,omitempty"`
}

type C17Scenario struct {
	harness.Meta
	Kind     string     `json:"kind"` // frame | handover
	Frames   []C17Frame `json:"frames,omitempty"`
	Children []C17Child `json:"children,omitempty"`
	// Slow: the steps of the old process take time (each blocks until the harness lets it finish), so that the
	// moment of the acknowledgement relative to the step is observable
	Slow bool `json:"slow,omitempty"`
}

func (s *C17Scenario) GetMeta() *harness.Meta { return &s.Meta }

func (c17) ID() string              { return "C17" }
func (c17) Empty() harness.Scenario { return &C17Scenario{} }
func (c17) NontrivialRule() string {
	return "frame runs are non-trivial when >= 1 malformed and >= 1 well-formed frame were received; hand-over runs when >= 2 steps were performed, or >= 1 step after a child was dropped; distinct = distinct scenarios"
}
func (c17) Components() ([]string, []string) {
	return []string{"hotrestart.sendMessage / readMessage (through the verif wrappers)", "hotrestart.New, accept loop, handleChild, the four request handlers and the unknown handler", "hotrestart child side: ShutdownParentAdmin, ShutdownParentLocalConf, DrainParentListeners, TerminateParent", "the kernel's AF_UNIX stream sockets (real)"},
		[]string{"the instance (recording stub of the Instance interface: admin API, local configuration store, listeners)", "the kill function (recorded instead of signalling the process)", "scripted children"}
}

const c17ReadSize = 4096

func c17Payload(n int, salt int) []byte {
	b := make([]byte, n)
	for i := range b {
		b[i] = byte(7 + i*13 + salt*31)
		if b[i] == 0 {
			b[i] = 0x55 // a zero byte would be indistinguishable from the reader's fresh buffer
		}
	}
	return b
}

func genC17Frame(r *simhook.Rand, handover bool) C17Frame {
	f := C17Frame{}
	switch r.Intn(10) {
	case 0, 1, 2, 3, 4, 5:
		f.Typ = []int{1, 3, 5, 1, 3, 5, 7}[r.Intn(7)]
	case 6:
		f.Typ = []int{2, 4, 6, 8, 9}[r.Intn(5)]
	case 7:
		f.Typ = []int{0, 10, 11, 127, 128, 255}[r.Intn(6)]
	default:
		f.Typ = r.Intn(256)
	}
	switch r.Intn(8) {
	case 0:
		f.Actual = 0
	case 1, 2:
		f.Actual = 2
	case 3, 4:
		f.Actual = r.Intn(64)
	case 5:
		f.Actual = r.Intn(c17ReadSize - 3 + 1)
	default:
		f.Actual = []int{c17ReadSize - 3, c17ReadSize - 4, c17ReadSize - 5, 253, 254, 255, 256, 257}[r.Intn(8)]
	}
	f.Declared = f.Actual
	switch r.Intn(10) {
	case 0:
		f.Declared = f.Actual + 1
	case 1:
		f.Declared = f.Actual + 1 + r.Intn(300)
	case 2:
		f.Declared = []int{65535, 65534, 32768, c17ReadSize, c17ReadSize - 1, c17ReadSize - 2, c17ReadSize + 1}[r.Intn(7)]
		if f.Declared < f.Actual {
			f.Declared = f.Actual + 1
		}
	case 3:
		f.Actual = -1 - r.Intn(2)
		f.Declared = r.Intn(3)
	case 4:
		if !handover && f.Actual > 0 {
			f.Declared = r.Intn(f.Actual) // trailing bytes after the declared payload
		}
	case 5, 6:
		f.Typed = true
	}
	if f.Declared > 65535 {
		f.Declared = 65535
	}
	return f
}

func (f C17Frame) bytes(salt int) []byte {
	if f.Actual < 0 {
		return []byte{byte(f.Typ), byte(f.Declared >> 8)}[:3+f.Actual]
	}
	b := []byte{byte(f.Typ), byte(f.Declared >> 8), byte(f.Declared)}
	return append(b, c17Payload(f.Actual, salt)...)
}

// wellFormed: the frame carries a whole header and at least the declared payload.
func (f C17Frame) wellFormed() bool { return f.Actual >= 0 && f.Declared <= f.Actual }

func (p c17) Gen(r *simhook.Rand, tier string, idx int) harness.Scenario {
	sc := &C17Scenario{Meta: harness.GenMeta(r, 0)}
	if r.Intn(3) == 0 {
		sc.Kind, sc.Class = "frame", "frame"
		for i := 0; i < 1+r.Intn(24); i++ {
			sc.Frames = append(sc.Frames, genC17Frame(r, false))
		}
		return sc
	}
	sc.Kind, sc.Class = "handover", "handover"
	for c := 0; c < 1+r.Intn(4); c++ {
		ch := C17Child{}
		if r.Chance(1, 4) {
			all := []string{"admin", "localconf", "drain", "terminate"}
			if r.Chance(1, 2) {
				ch.API = all // the sequence of cmd/samaritan
			} else {
				for i := 0; i < 1+r.Intn(6); i++ {
					ch.API = append(ch.API, all[r.Intn(4)])
				}
			}
		} else {
			for i := 0; i < r.Intn(9); i++ {
				ch.Frames = append(ch.Frames, genC17Frame(r, true))
			}
			if len(ch.Frames) > 0 && r.Chance(1, 2) {
				ch.Drop = true
				ch.DropAt = r.Intn(len(ch.Frames))
				ch.Unread = r.Chance(1, 2)
			}
		}
		sc.Children = append(sc.Children, ch)
	}
	if r.Chance(1, 3) {
		sc.Slow = true
		sc.Class = "handover-slow-steps"
	}
	if r.Chance(1, 300) {
		// a child that lets several seconds pass between two requests (a real hand-over waits minutes between drain
		// and terminate; real time cannot be faked on this transport, so the pause is short and rare)
		for ci := range sc.Children {
			if ch := &sc.Children[ci]; len(ch.Frames) >= 2 && !ch.Drop {
				ch.QuietAt = 1 + r.Intn(len(ch.Frames)-1)
				ch.QuietMs = 5500 + r.Intn(1500)
				sc.Class = "handover-quiet-child"
				break
			}
		}
	}
	return sc
}

var c17Seq int64

type c17Instance struct {
	id, parent int
	mu         sync.Mutex
	calls      []string
	slow       bool
	entered    chan string   // a slow step has begun
	gate       chan struct{} // ... and may finish
}

func (i *c17Instance) rec(s string)    { i.mu.Lock(); i.calls = append(i.calls, s); i.mu.Unlock() }
func (i *c17Instance) setSlow(on bool) { i.mu.Lock(); i.slow = on; i.mu.Unlock() }

// step: a hand-over step of the old process; in slow mode it begins, waits for the harness, and only then counts as performed
func (i *c17Instance) step(s string) {
	i.mu.Lock()
	slow := i.slow
	i.mu.Unlock()
	if slow {
		i.entered <- s
		select {
		case <-i.gate:
		case <-time.After(c17Guard):
		}
	}
	i.rec(s)
}
func (i *c17Instance) snapshot() []string {
	i.mu.Lock()
	defer i.mu.Unlock()
	return append([]string(nil), i.calls...)
}
func (i *c17Instance) ID() int            { return i.id }
func (i *c17Instance) ParentID() int      { return i.parent }
func (i *c17Instance) ShutdownAdmin()     { i.step("ShutdownAdmin") }
func (i *c17Instance) DrainListeners()    { i.step("DrainListeners") }
func (i *c17Instance) ShutdownLocalConf() { i.step("ShutdownLocalConf") }
func (i *c17Instance) Shutdown()          { i.rec("Shutdown") }

func c17NewID() int {
	return (os.Getpid()%20000)*100000 + int(atomic.AddInt64(&c17Seq, 1)%100000)
}

const c17Guard = 10 * time.Second

func (p c17) Run(t *testing.T, s harness.Scenario) harness.Outcome {
	sc := s.(*C17Scenario)
	simrt.Progress.Add(1)
	probes := map[string]int{}
	faults := map[string]int{}
	var v *simrt.Violation
	var obs bytes.Buffer
	nontrivial := false
	if sc.Kind == "frame" {
		v, nontrivial = p.runFrames(sc, probes, faults, &obs)
	} else {
		v, nontrivial = p.runHandover(sc, probes, faults, &obs)
	}
	return harness.Outcome{Res: simrt.Result{Violation: v, Hash: simhook.HashString(obs.String()), Steps: probes["c17.frames"], Probes: probes}, Faults: faults, Nontrivial: nontrivial}
}

func c17Pair() (a, b *net.UnixConn, err error) {
	name := fmt.Sprintf("@verif_c17_%d", c17NewID())
	lis, err := net.Listen("unix", name)
	if err != nil {
		return nil, nil, err
	}
	defer lis.Close()
	ca, err := net.Dial("unix", name)
	if err != nil {
		return nil, nil, err
	}
	cb, err := lis.Accept()
	if err != nil {
		ca.Close()
		return nil, nil, err
	}
	return ca.(*net.UnixConn), cb.(*net.UnixConn), nil
}

// runFrames: frames written on one end of a connection are received with readMessage on the other.
func (p c17) runFrames(sc *C17Scenario, probes, faults map[string]int, obs *bytes.Buffer) (*simrt.Violation, bool) {
	a, b, err := c17Pair()
	if err != nil {
		panic("C17 infrastructure: " + err.Error())
	}
	defer a.Close()
	defer b.Close()
	good, bad := 0, 0
	for i, f := range sc.Frames {
		probes["c17.frames"]++
		simrt.Progress.Add(1)
		raw := f.bytes(i)
		desc := fmt.Sprintf("frame %d (type %d, length field %d, %d bytes on the wire)", i, f.Typ, f.Declared, len(raw))
		if f.Typed && f.Actual >= 0 {
			if err := hotrestart.VerifSendFrame(a, uint8(f.Typ), c17Payload(f.Actual, i)); err != nil {
				return &simrt.Violation{Clause: "frame-round-trip", Detail: desc + ": sendMessage failed: " + err.Error()}, false
			}
			f.Declared = f.Actual
			desc += " sent with sendMessage"
		} else if _, err := a.Write(raw); err != nil {
			panic("C17 infrastructure: " + err.Error())
		}
		b.SetReadDeadline(time.Now().Add(c17Guard))
		var typ uint8
		var ln uint16
		var data []byte
		var rerr error
		var pv interface{}
		func() {
			defer func() { pv = recover() }()
			typ, ln, data, rerr = hotrestart.VerifReadFrame(b)
		}()
		fmt.Fprintf(obs, "%d:%v:%d:%d:%v;", i, rerr == nil, typ, ln, pv != nil)
		if pv != nil {
			return &simrt.Violation{Clause: "malformed-frame-rejected", Detail: fmt.Sprintf("%s: readMessage panicked: %v", desc, pv)}, true
		}
		payload := c17Payload(max(f.Actual, 0), i)
		switch {
		case f.Actual < 0:
			faults["truncated-header"]++
			bad++
			if rerr == nil {
				return &simrt.Violation{Clause: "malformed-frame-rejected", Detail: fmt.Sprintf("%s: a frame without a whole header was accepted as type %d length %d", desc, typ, ln)}, true
			}
		case f.Declared > f.Actual:
			faults["truncated-payload"]++
			if f.Declared > c17ReadSize-3 {
				faults["oversized-length"]++
			}
			bad++
			if rerr == nil {
				return &simrt.Violation{Clause: "malformed-frame-rejected", Detail: fmt.Sprintf("%s: the frame carries %d payload bytes but was accepted as type %d length %d with payload %s", desc, f.Actual, typ, ln, tailHex(data))}, true
			}
		case f.Declared == f.Actual:
			good++
			if rerr != nil {
				return &simrt.Violation{Clause: "frame-round-trip", Detail: fmt.Sprintf("%s: a well-formed frame was rejected: %v", desc, rerr)}, true
			}
			if int(typ) != f.Typ || int(ln) != f.Actual || !bytes.Equal(data, payload) {
				return &simrt.Violation{Clause: "frame-round-trip", Detail: fmt.Sprintf("%s: received type %d length %d payload %s", desc, typ, ln, tailHex(data))}, true
			}
		default:
			// trailing bytes after the declared payload: accepting the declared frame or rejecting it are both fine
			faults["trailing-bytes"]++
			if rerr == nil && (int(typ) != f.Typ || int(ln) != f.Declared || !bytes.Equal(data, payload[:f.Declared])) {
				return &simrt.Violation{Clause: "frame-round-trip", Detail: fmt.Sprintf("%s: received type %d length %d payload %s", desc, typ, ln, tailHex(data))}, true
			}
		}
	}
	return nil, good > 0 && bad > 0
}

func tailHex(b []byte) string {
	if len(b) <= 12 {
		return fmt.Sprintf("%x", b)
	}
	return fmt.Sprintf("%x..%x (%d bytes)", b[:4], b[len(b)-6:], len(b))
}

var c17Steps = map[int]string{1: "ShutdownAdmin", 3: "ShutdownLocalConf", 5: "DrainListeners", 7: "kill(SIGTERM)"}
var c17API = map[string]int{"admin": 1, "localconf": 3, "drain": 5, "terminate": 7}

// c17Drained waits until the peer has taken everything this end wrote out of the socket (SIOCOUTQ == 0). The
// control channel is a stream socket read with one 4096-byte read per frame: a frame that gets no reply must
// have been consumed before the next one is written, or the kernel would hand both to the same read. This polls
// the kernel's queue state, not a clock.
func c17Drained(conn *net.UnixConn) bool {
	rc, err := conn.SyscallConn()
	if err != nil {
		panic("C17 infrastructure: " + err.Error())
	}
	deadline := time.Now().Add(c17Guard)
	for {
		var q int32 = -1
		var errno syscall.Errno
		rc.Control(func(fd uintptr) {
			_, _, errno = syscall.Syscall(syscall.SYS_IOCTL, fd, syscall.TIOCOUTQ, uintptr(unsafe.Pointer(&q)))
		})
		if errno != 0 {
			panic("C17 infrastructure: SIOCOUTQ: " + errno.Error())
		}
		if q == 0 {
			return true
		}
		if time.Now().After(deadline) {
			return false
		}
		time.Sleep(50 * time.Microsecond)
	}
}

// c17Readable: bytes waiting in the connection's receive queue (kernel state).
func c17Readable(conn *net.UnixConn) int {
	rc, err := conn.SyscallConn()
	if err != nil {
		panic("C17 infrastructure: " + err.Error())
	}
	var q int32
	var errno syscall.Errno
	rc.Control(func(fd uintptr) {
		_, _, errno = syscall.Syscall(syscall.SYS_IOCTL, fd, syscall.TIOCINQ, uintptr(unsafe.Pointer(&q)))
	})
	if errno != 0 {
		panic("C17 infrastructure: SIOCINQ: " + errno.Error())
	}
	return int(q)
}

// c17Pending: bytes received from the parent and not yet consumed, per connection (replies are framed by their
// length field: the child end treats the channel as the byte stream it is).
var c17Pending = map[*net.UnixConn][]byte{}

// c17ReadReply reads one frame from the parent with the guard.
func c17ReadReply(conn *net.UnixConn) (typ int, data []byte, err error) {
	conn.SetReadDeadline(time.Now().Add(c17Guard))
	for {
		buf := c17Pending[conn]
		if len(buf) >= 3 {
			n := int(buf[1])<<8 | int(buf[2])
			if len(buf) >= 3+n {
				c17Pending[conn] = buf[3+n:]
				return int(buf[0]), buf[3 : 3+n], nil
			}
		}
		b := make([]byte, 8192)
		n, err := conn.Read(b)
		if err != nil {
			delete(c17Pending, conn)
			return 0, nil, err
		}
		c17Pending[conn] = append(buf, b[:n]...)
	}
}

func (p c17) runHandover(sc *C17Scenario, probes, faults map[string]int, obs *bytes.Buffer) (*simrt.Violation, bool) {
	inst := &c17Instance{id: c17NewID(), entered: make(chan string, 256), gate: make(chan struct{}, 256)}
	hotrestart.VerifSetKill(func(pid int, sig syscall.Signal) error {
		if pid != os.Getpid() {
			inst.rec(fmt.Sprintf("kill(pid %d!)", pid))
			return nil
		}
		if sig == syscall.SIGTERM {
			inst.rec("kill(SIGTERM)")
		} else {
			inst.rec(fmt.Sprintf("kill(%v)", sig))
		}
		return nil
	})
	defer hotrestart.VerifSetKill(nil)
	parent, err := hotrestart.New(inst)
	if err != nil {
		panic("C17 infrastructure: " + err.Error())
	}
	var open []*net.UnixConn
	defer func() {
		for _, c := range open {
			c.Close()
			delete(c17Pending, c)
		}
		done := make(chan struct{})
		go func() { parent.Shutdown(); close(done) }()
		select {
		case <-done:
		case <-time.After(c17Guard):
		}
	}()
	sock := fmt.Sprintf("@sam_domain_socket_%d", inst.id)
	var want []string
	dropped := false
	afterDrop := 0
	compare := func(where string) *simrt.Violation {
		got := inst.snapshot()
		if fmt.Sprint(got) != fmt.Sprint(want) {
			return &simrt.Violation{Clause: "each-step-once-in-order", Detail: fmt.Sprintf("%s: the old process performed %v, the requests call for %v", where, got, want)}
		}
		return nil
	}
	// sync: an unknown request answered with the unknown reply proves that everything sent before was handled
	sync := func(conn *net.UnixConn, where string) *simrt.Violation {
		if _, err := conn.Write([]byte{200, 0, 0}); err != nil {
			return &simrt.Violation{Clause: "later-child-served", Detail: where + ": write failed: " + err.Error()}
		}
		for {
			typ, data, err := c17ReadReply(conn)
			if err != nil {
				return &simrt.Violation{Clause: "later-child-served", Detail: fmt.Sprintf("%s: no reply to an (unknown) request within %v: %v", where, c17Guard, err)}
			}
			if typ != 9 || len(data) != 0 {
				return &simrt.Violation{Clause: "reply-matches-request", Detail: fmt.Sprintf("%s: an unknown request (type 200) was answered with type %d, %d payload bytes (or a frame that had to be rejected was answered); the old process performed %v", where, typ, len(data), inst.snapshot())}
			}
			return nil
		}
	}
	for ci, ch := range sc.Children {
		where := fmt.Sprintf("child %d", ci)
		if len(ch.API) > 0 {
			// a real child: Restarter with ParentID
			inst.setSlow(false) // its calls wait for the replies themselves
			cinst := &c17Instance{id: c17NewID(), parent: inst.id}
			child, err := hotrestart.New(cinst)
			if err != nil {
				panic("C17 infrastructure: " + err.Error())
			}
			done := make(chan struct{})
			go func() {
				defer close(done)
				for _, a := range ch.API {
					switch a {
					case "admin":
						child.ShutdownParentAdmin()
					case "localconf":
						child.ShutdownParentLocalConf()
					case "drain":
						child.DrainParentListeners()
					case "terminate":
						child.TerminateParent()
					}
				}
			}()
			api := ch.API
			for i, a := range api {
				want = append(want, c17Steps[c17API[a]])
				probes["c17.frames"]++
				simrt.Progress.Add(1)
				if dropped {
					afterDrop++
				}
				if a == "terminate" {
					// TerminateParent closes the child's connection: later calls of this child go nowhere
					for range api[i+1:] {
						faults["request-on-closed-connection"]++
					}
					break
				}
			}
			select {
			case <-done:
			case <-time.After(c17Guard):
				return &simrt.Violation{Clause: "reply-matches-request", Detail: fmt.Sprintf("%s (real child-side API, calls %v): the calls did not return within %v, the old process performed %v", where, ch.API, c17Guard, inst.snapshot())}, true
			}
			hotrestart.VerifCloseParentConn(child) // the child process exits
			sdone := make(chan struct{})
			go func() { child.Shutdown(); close(sdone) }()
			select {
			case <-sdone:
			case <-time.After(c17Guard):
			}
			fmt.Fprintf(obs, "api%d;", ci)
			dropped = true // the child's connection is gone now
			faults["child-closed"]++
			continue
		}
		c, err := net.Dial("unix", sock)
		if err != nil {
			return &simrt.Violation{Clause: "later-child-served", Detail: fmt.Sprintf("%s cannot connect to the control socket: %v", where, err)}, true
		}
		conn := c.(*net.UnixConn)
		open = append(open, conn)
		closed := false
		inst.setSlow(sc.Slow)
		for fi, f := range ch.Frames {
			probes["c17.frames"]++
			simrt.Progress.Add(1)
			if ch.QuietMs > 0 && fi == ch.QuietAt {
				faults["quiet-period"]++
				for left := ch.QuietMs; left > 0; left -= 500 {
					time.Sleep(500 * time.Millisecond)
					simrt.Progress.Add(1)
				}
			}
			raw := f.bytes(fi)
			desc := fmt.Sprintf("%s frame %d (type %d, length field %d, %d bytes on the wire)", where, fi, f.Typ, f.Declared, len(raw))
			if f.Typed && f.Actual >= 0 {
				f.Declared = f.Actual
				if err := hotrestart.VerifSendFrame(conn, uint8(f.Typ), c17Payload(f.Actual, fi)); err != nil {
					return &simrt.Violation{Clause: "later-child-served", Detail: desc + ": send failed: " + err.Error()}, true
				}
			} else if _, err := conn.Write(raw); err != nil {
				return &simrt.Violation{Clause: "later-child-served", Detail: desc + ": write failed: " + err.Error()}, true
			}
			expectReply := -1
			if f.wellFormed() {
				expectReply = 9
				if step, ok := c17Steps[f.Typ]; ok {
					want = append(want, step)
					expectReply = f.Typ + 1
					if dropped {
						afterDrop++
					}
				}
			} else if f.Actual < 0 {
				faults["truncated-header"]++
			} else {
				faults["truncated-payload"]++
			}
			if _, isStep := c17Steps[f.Typ]; sc.Slow && f.wellFormed() && isStep && f.Typ != 7 {
				// the step has begun and cannot finish before the harness says so: an acknowledgement that is
				// already in the child's receive queue was sent before the step was performed (kernel queue state,
				// no clock: the reply is written by the same goroutine that performs the step)
				select {
				case <-inst.entered:
				case <-time.After(c17Guard):
					return &simrt.Violation{Clause: "each-step-once-in-order", Detail: fmt.Sprintf("%s: the old process did not begin the requested step within %v; performed so far %v", desc, c17Guard, inst.snapshot())}, true
				}
				probes["c17.slow-step-observed"]++
				if n := c17Readable(conn) + len(c17Pending[conn]); n > 0 {
					inst.gate <- struct{}{}
					return &simrt.Violation{Clause: "acknowledged-after-performed", Detail: fmt.Sprintf("%s: %d reply bytes had reached the child while the old process was still performing the step (performed so far %v)", desc, n, inst.snapshot())}, true
				}
				inst.gate <- struct{}{}
			}
			if ch.Drop && fi == ch.DropAt && ch.Unread {
				faults["child-dropped-before-reading-reply"]++
				conn.Close()
				closed = true
				break
			}
			if expectReply >= 0 {
				typ, data, err := c17ReadReply(conn)
				fmt.Fprintf(obs, "%d.%d:%d;", ci, fi, typ)
				if err != nil {
					return &simrt.Violation{Clause: "reply-matches-request", Detail: fmt.Sprintf("%s: no reply within %v: %v; the old process performed %v", desc, c17Guard, err, inst.snapshot())}, true
				}
				wantData := "{}"
				if expectReply == 9 {
					wantData = ""
				}
				if typ != expectReply || string(data) != wantData {
					return &simrt.Violation{Clause: "reply-matches-request", Detail: fmt.Sprintf("%s: answered with type %d payload %q, expected type %d payload %q", desc, typ, data, expectReply, wantData)}, true
				}
			}
			if expectReply < 0 && !c17Drained(conn) {
				return &simrt.Violation{Clause: "later-child-served", Detail: fmt.Sprintf("%s: the old process did not take the frame from the socket within %v", desc, c17Guard)}, true
			}
			if ch.Drop && fi == ch.DropAt {
				faults["child-dropped"]++
				conn.Close()
				closed = true
				break
			}
		}
		if closed {
			dropped = true
			continue
		}
		// the child stays connected: a malformed frame must not have produced a reply or a step
		if v := sync(conn, where); v != nil {
			return v, true
		}
		if v := compare("after " + where); v != nil {
			return v, true
		}
		// only one child is served at a time: leave so that the next one can be
		conn.Close()
		dropped = true
		faults["child-closed"]++
	}
	// a last child completes a hand-over step after everything that happened
	inst.setSlow(false)
	c, err := net.Dial("unix", sock)
	if err != nil {
		return &simrt.Violation{Clause: "later-child-served", Detail: fmt.Sprintf("the last child cannot connect to the control socket: %v", err)}, true
	}
	conn := c.(*net.UnixConn)
	open = append(open, conn)
	if _, err := conn.Write([]byte{5, 0, 2, '{', '}'}); err != nil {
		return &simrt.Violation{Clause: "later-child-served", Detail: "the last child cannot write: " + err.Error()}, true
	}
	want = append(want, "DrainListeners")
	typ, data, rerr := c17ReadReply(conn)
	if rerr != nil {
		return &simrt.Violation{Clause: "later-child-served", Detail: fmt.Sprintf("after %d earlier children (all gone), a new child's drain request got no reply within %v: %v; the old process performed %v", len(sc.Children), c17Guard, rerr, inst.snapshot())}, true
	}
	if typ != 6 || string(data) != "{}" {
		return &simrt.Violation{Clause: "reply-matches-request", Detail: fmt.Sprintf("the last child's drain request was answered with type %d payload %q", typ, data)}, true
	}
	if v := sync(conn, "last child"); v != nil {
		return v, true
	}
	if v := compare("at the end"); v != nil {
		return v, true
	}
	fmt.Fprintf(obs, "calls=%v", want)
	return nil, len(want) >= 3 || (len(sc.Children) > 0 && len(want) >= 2)
}

func (p c17) Shrink(s harness.Scenario) []harness.Scenario {
	sc := s.(*C17Scenario)
	var out []harness.Scenario
	for i := range sc.Frames {
		c := *sc
		c.Frames = append(append([]C17Frame(nil), sc.Frames[:i]...), sc.Frames[i+1:]...)
		out = append(out, &c)
	}
	for i := range sc.Children {
		c := *sc
		c.Children = append(append([]C17Child(nil), sc.Children[:i]...), sc.Children[i+1:]...)
		out = append(out, &c)
	}
	if sc.Slow {
		c := *sc
		c.Slow = false
		out = append(out, &c)
	}
	for i, ch := range sc.Children {
		for j := range ch.Frames {
			if ch.Drop && j <= ch.DropAt {
				continue
			}
			c := *sc
			c.Children = append([]C17Child(nil), sc.Children...)
			nc := ch
			nc.Frames = append(append([]C17Frame(nil), ch.Frames[:j]...), ch.Frames[j+1:]...)
			if nc.QuietMs > 0 && (j < nc.QuietAt || nc.QuietAt >= len(nc.Frames)) && nc.QuietAt > 0 {
				nc.QuietAt--
			}
			c.Children[i] = nc
			out = append(out, &c)
		}
		if ch.Drop && ch.DropAt > 0 {
			c := *sc
			c.Children = append([]C17Child(nil), sc.Children...)
			nc := ch
			nc.Frames = append([]C17Frame(nil), ch.Frames[1:]...)
			nc.DropAt--
			c.Children[i] = nc
			out = append(out, &c)
		}
		for j := range ch.API {
			c := *sc
			c.Children = append([]C17Child(nil), sc.Children...)
			nc := ch
			nc.API = append(append([]string(nil), ch.API[:j]...), ch.API[j+1:]...)
			c.Children[i] = nc
			out = append(out, &c)
		}
	}
	return out
}

package profiles

import (
	"fmt"
	"strings"
	"testing"

	"github.com/samaritan-proxy/samaritan/stats"

	"verif.local/sim/harness"
	"verif.local/sim/simhook"
	"verif.local/sim/world"
)

// C20 — connection and request statistics are conserved.
type c20 struct{}

func init() { harness.Register(c20{}) }

// C20Scenario: a Redis-service history or a TCP-service history.
type C20Scenario struct {
	Kind string         `json:"kind"` // redis | tcp
	R    *RedisScenario `json:"redis,omitempty"`
	T    *TCPScenario   `json:"tcp,omitempty"`
}

func (s *C20Scenario) GetMeta() *harness.Meta {
	if s.T != nil {
		return &s.T.Meta
	}
	return &s.R.Meta
}

func (c20) ID() string              { return "C20" }
func (c20) Empty() harness.Scenario { return &C20Scenario{} }
func (c20) NontrivialRule() string {
	return "a run is non-trivial when it ended quiescent (every client closed, or the service stopped) after at least one request and one connection; distinct = distinct (scenario, execution-hash) pairs"
}
func (c20) Components() ([]string, []string) {
	return []string{"proc.stats", "proc.listener (cx counters, registry)", "tcp.tcpProc (connection counters of relayed connections)", "redis.redis (request and per-command counters)", "redis.upstream (request counters across redirections)", "stats store (kirk91/stats)"},
		[]string{"network (simnet)", "Redis cluster nodes (cluster)", "scripted TCP backends", "clients"}
}

func (p c20) Gen(r *simhook.Rand, tier string, idx int) harness.Scenario {
	if r.Chance(1, 4) {
		// TCP service: relayed connections with membership changes (incl. a removal that lands while the relay is
		// dialing the host it picked), every client finishing its streams and closing
		var ts *TCPScenario
		for ts == nil {
			if c, ok := (c06{}).Gen(r, tier, idx).(*C06Scenario); ok && c.Kind == "e2e" && c.T.Env.HC == nil {
				ts = c.T
			}
		}
		for i := range ts.Conns {
			ts.Conns[i].C2S.Finish, ts.Conns[i].S2C.Finish = "", ""
		}
		if len(ts.Faults) > 0 && r.Chance(1, 2) {
			// aim one membership change at the moment a connection is being dialed
			ts.Faults[r.Intn(len(ts.Faults))].Site = "net.Dial"
		} else if r.Chance(1, 2) {
			ts.Faults = append(ts.Faults, TCPFault{Kind: "host-remove", Node: r.Intn(ts.Env.Backends), Site: "net.Dial"})
		}
		ts.Class = "tcp"
		return &C20Scenario{Kind: "tcp", T: ts}
	}
	var sc *RedisScenario
	switch r.Intn(4) {
	case 0: // plain traffic incl. invalid and unsupported requests
		sc = c01{}.Gen(r, tier, idx).(*RedisScenario)
		sc.Class = "traffic"
		sc.Faults = nil
	case 1: // backend failures
		sc = c02{}.Gen(r, tier, idx).(*RedisScenario)
		if sc.Class == "deep-queue" {
			sc = c02{}.GenBase(r, tier, idx).(*RedisScenario)
		}
		var fs []Fault
		for _, f := range sc.Faults {
			if f.Kind != "stop" && f.Kind != "silent" {
				fs = append(fs, f)
			}
		}
		sc.Faults = fs
		sc.Class = "backend-failures"
	case 2: // redirections
		sc = c04{}.Gen(r, tier, idx).(*RedisScenario)
		sc.Probes, sc.Probes2, sc.SettleMs = nil, nil, 0
		sc.Class = "redirections"
	default: // connection limit
		sc = c02{}.GenBase(r, tier, idx).(*RedisScenario)
		sc.Env.ConnLimit = uint32(1 + r.Intn(3))
		for i := 0; i < 2+r.Intn(4); i++ {
			sc.Conns = append(sc.Conns, ConnScript{Name: fmt.Sprintf("x%d", i), Reqs: []world.Request{{Args: world.Bins("PING")}}})
		}
		sc.Class = "conn-limit"
	}
	if r.Chance(1, 3) && len(sc.Conns) > 0 {
		// a client that goes away in the middle of its pipeline: requests it has sent are still on their way
		// through the proxy when its connection ends
		cs := &sc.Conns[r.Intn(len(sc.Conns))]
		if n := len(cs.Reqs); n > 1 {
			cs.LeaveAfter = 1 + r.Intn(n-1)
			cs.MaxOut = 0
			for i := range cs.Reqs {
				cs.Reqs[i].Wait = false
			}
			sc.Class += "+leave"
		}
	}
	sc.IdleFaults = false
	if r.Chance(1, 2) {
		sc.EndStop = true
		sc.Class += "+stop"
	} else {
		sc.EndClose = true
		sc.Class += "+close"
	}
	return &C20Scenario{Kind: "redis", R: sc}
}

func readStats(name string) (counters map[string]uint64, gauges map[string]uint64) {
	prefix := "service." + name + "."
	counters, gauges = map[string]uint64{}, map[string]uint64{}
	for _, c := range stats.Counters() {
		if strings.HasPrefix(c.Name(), prefix) {
			counters[strings.TrimPrefix(c.Name(), prefix)] = c.Value()
		}
	}
	for _, g := range stats.Gauges() {
		if strings.HasPrefix(g.Name(), prefix) {
			gauges[strings.TrimPrefix(g.Name(), prefix)] = g.Value()
		}
	}
	return
}

func conservation(name string) *simrtViolation {
	cs, gs := readStats(name)
	for g, v := range gs {
		if v > 1<<62 {
			return &simrtViolation{Clause: "gauge-not-negative", Detail: fmt.Sprintf("gauge %s = %d (wrapped below zero)", g, v)}
		}
	}
	for _, side := range []string{"downstream", "upstream"} {
		if v := gs[side+".cx_active"]; v != 0 {
			return &simrtViolation{Clause: "cx-active-zero-at-quiescence", Detail: fmt.Sprintf("%s.cx_active = %d with no connection open; cx_total=%d cx_destroy_total=%d", side, v, cs[side+".cx_total"], cs[side+".cx_destroy_total"])}
		}
		if cs[side+".cx_total"] != cs[side+".cx_destroy_total"] {
			return &simrtViolation{Clause: "cx-total-equals-destroyed", Detail: fmt.Sprintf("%s: cx_total=%d cx_destroy_total=%d", side, cs[side+".cx_total"], cs[side+".cx_destroy_total"])}
		}
		if cs[side+".rq_total"] != cs[side+".rq_success_total"]+cs[side+".rq_failure_total"] {
			return &simrtViolation{Clause: "rq-total-equals-success-plus-failure", Detail: fmt.Sprintf("%s: rq_total=%d rq_success_total=%d rq_failure_total=%d", side, cs[side+".rq_total"], cs[side+".rq_success_total"], cs[side+".rq_failure_total"])}
		}
	}
	for k, v := range cs {
		if strings.HasPrefix(k, "redis.") && strings.HasSuffix(k, ".total") {
			cmd := strings.TrimSuffix(strings.TrimPrefix(k, "redis."), ".total")
			if v != cs["redis."+cmd+".success"]+cs["redis."+cmd+".error"] {
				return &simrtViolation{Clause: "command-total-equals-success-plus-error", Detail: fmt.Sprintf("redis.%s: total=%d success=%d error=%d", cmd, v, cs["redis."+cmd+".success"], cs["redis."+cmd+".error"])}
			}
		}
	}
	return nil
}

func (p c20) Run(t *testing.T, s harness.Scenario) harness.Outcome {
	if cs := s.(*C20Scenario); cs.Kind == "tcp" {
		return p.runTCP(t, cs.T)
	}
	sc := s.(*C20Scenario).R
	w := newRedisWorld(sc)
	judged := false
	w.step = func(w *redisWorld) *simrtViolation {
		if w.rt.Step%32 == 0 && w.env.Started {
			_, gs := readStats(w.env.Name)
			for g, v := range gs {
				if v > 1<<62 {
					return &simrtViolation{Clause: "gauge-not-negative", Detail: fmt.Sprintf("gauge %s = %d (wrapped below zero) at step %d", g, v, w.rt.Step)}
				}
			}
		}
		return nil
	}
	w.fin = func(w *redisWorld) *simrtViolation {
		// judged only when the simulator itself sees quiescence: the end phase completed, no request unanswered on an
		// open connection (a lost request is C02's subject and is reported there, not here)
		if w.endPhase != 1 || !w.env.Quiet() {
			return nil
		}
		for _, n := range w.env.Cluster.Nodes {
			if n.Stalled || n.Silent {
				return nil // a node that still owes replies: requests are in flight, nothing is settled
			}
		}
		if sc.EndStop && !w.env.StopReturned {
			return nil
		}
		for _, c := range w.env.Clients {
			if c.Connected && !c.EOF && !c.Reset && !c.Left && sc.EndStop {
				return nil // the proxy has not closed this connection: C09's subject
			}
		}
		judged = true
		return conservation(w.env.Name)
	}
	out := runRedis(t, sc, w)
	out.Nontrivial = judged
	return out
}

func (p c20) runTCP(t *testing.T, sc *TCPScenario) harness.Outcome {
	w := newTCPWorld(sc)
	judged := false
	w.step = func(w *tcpWorld) *simrtViolation {
		if w.rt.Step%32 == 0 && w.env != nil {
			_, gs := readStats(w.env.Name)
			for g, v := range gs {
				if v > 1<<62 {
					return &simrtViolation{Clause: "gauge-not-negative", Detail: fmt.Sprintf("gauge %s = %d (wrapped below zero) at step %d", g, v, w.rt.Step)}
				}
			}
		}
		return nil
	}
	w.fin = func(w *tcpWorld) *simrtViolation {
		// judged in a quiescent final state: every client connection is over and the service holds no connection
		if len(w.clients) != len(sc.Conns) || !w.env.Quiet() {
			return nil
		}
		for _, c := range w.clients {
			if !c.eof && !c.reset {
				return nil
			}
		}
		if len(w.env.Net.OpenSUTEnds()) > 0 {
			return nil
		}
		judged = true
		return conservation(w.env.Name)
	}
	out := runTCP(t, sc, w)
	out.Nontrivial = judged
	return out
}

func (p c20) Shrink(s harness.Scenario) []harness.Scenario {
	cs := s.(*C20Scenario)
	var out []harness.Scenario
	if cs.Kind == "tcp" {
		for _, c := range shrinkTCP(cs.T) {
			out = append(out, &C20Scenario{Kind: "tcp", T: c.(*TCPScenario)})
		}
		return out
	}
	for _, c := range shrinkRedis(cs.R) {
		out = append(out, &C20Scenario{Kind: "redis", R: c.(*RedisScenario)})
	}
	return out
}

package profiles

import (
	"fmt"
	"strings"
	"testing"

	"verif.local/sim/cluster"
	"verif.local/sim/harness"
	"verif.local/sim/refredis"
	"verif.local/sim/simhook"
	"verif.local/sim/world"
)

// C07 — the proxy heals after connection loss and topology change.
type c07 struct{}

func init() { harness.Register(c07{}) }

func (c07) ID() string              { return "C07" }
func (c07) Empty() harness.Scenario { return &RedisScenario{} }
func (c07) NontrivialRule() string {
	return "a run is non-trivial when at least one fault (connection reset/close, node crash+restart, refused or timed-out first connect, layout change) fired and the probe round after healing was issued; distinct = distinct (scenario, execution-hash) pairs"
}
func (c07) Components() ([]string, []string) {
	return []string{"redis.upstream (client table, connect-call table, slot refresh loop, redirection handling)", "redis.client", "redis.session", "proc.listener", "host.Set"},
		[]string{"network (simnet: resets, refused and timed-out connects)", "Redis cluster nodes incl. restart and re-sharding (cluster)", "clients"}
}

// keysOnEveryNode returns one key per master (searching by slot ownership of the even layout).
func keysForNodes(r *simhook.Rand, masters int, prefix string, perNode int) [][]string {
	per := cluster.NumSlots / masters
	out := make([][]string, masters)
	for i := 0; len(out[masters-1]) < perNode || minLen(out) < perNode; i++ {
		k := fmt.Sprintf("%s%d", prefix, i)
		n := cluster.Slot([]byte(k)) / per
		if n >= masters {
			n = masters - 1
		}
		if len(out[n]) < perNode {
			out[n] = append(out[n], k)
		}
		if i > 100000 {
			break
		}
	}
	return out
}

func minLen(x [][]string) int {
	m := 1 << 30
	for _, s := range x {
		if len(s) < m {
			m = len(s)
		}
	}
	return m
}

func (p c07) Gen(r *simhook.Rand, tier string, idx int) harness.Scenario {
	sc := &RedisScenario{Meta: harness.GenMeta(r, 0)}
	sc.IdleFaults = true
	sc.Env = world.RedisCfg{Masters: 1 + r.Intn(3)}
	if r.Chance(1, 4) {
		sc.Env.FragNum, sc.Env.FragDen = 1, 3
	}
	sc.Env.ConnectMs = []int{200, 1000, 3000, 30000}[r.Intn(4)]
	m := sc.Env.Masters
	keys := keysForNodes(r, m, "h", 3)
	var all []string
	for n := range keys {
		for i, k := range keys[n] {
			all = append(all, k)
			sc.Env.Preload = append(sc.Env.Preload, world.KV{K: world.Bin(k), V: world.Bin(uniqueVal("pre", n*10+i, 12))})
		}
	}
	// phase 0: a steady stream across the fault
	nconn := 1 + r.Intn(2)
	for ci := 0; ci < nconn; ci++ {
		cs := ConnScript{Name: fmt.Sprintf("c%d", ci)}
		n := 2 + r.Intn(14)
		for k := 0; k < n; k++ {
			rq := world.Request{Args: world.Bins("GET", all[r.Intn(len(all))])}
			if r.Chance(1, 4) {
				rq.Args = append(world.Bins("SET", all[r.Intn(len(all))]), world.Bin(uniqueVal(cs.Name, k, 10)))
			}
			if r.Chance(1, 2) {
				rq.Wait = true
			}
			cs.Reqs = append(cs.Reqs, rq)
		}
		sc.Conns = append(sc.Conns, cs)
	}
	if r.Chance(1, 10) {
		// class "refresh-in-flight": the layout changes exactly while the reply of a periodic CLUSTER NODES request is
		// on its way back (it still describes the old layout), and a request is redirected before that reply has been
		// processed.  The redirection must cause one more refresh round; a minute later the same key must be routed
		// directly (the next periodic refresh is two minutes away).
		sc.Class = "refresh-in-flight"
		sc.IdleFaults = false
		if sc.Env.Masters < 2 {
			sc.Env.Masters = 2
			m = 2
			keys = keysForNodes(r, m, "h", 3)
		}
		sc.SlackMs = []int{0, 1, 1000}[r.Intn(3)]
		src := r.Intn(m)
		k := keys[src][r.Intn(len(keys[src]))]
		dst := (src + 1 + r.Intn(m-1)) % m
		slot := cluster.Slot([]byte(k))
		sc.Conns = []ConnScript{{Name: "c0", Reqs: []world.Request{
			{Args: world.Bins("GET", k), Wait: true},
			{Args: world.Bins("GET", k), Wait: true, Gap: 60000},
		}}}
		sc.Faults = []Fault{{Kind: "layout", From: slot, To: slot, Dst: dst, OnCmd: "cluster", Nth: 2 + r.Intn(2)}}
		sc.Probes, sc.Probes2 = nil, nil
		return sc
	}
	if r.Chance(1, 12) {
		// class "open-migration": the only node the proxy may ask for the layout is in the middle of migrating one of
		// its slots away (a slow migration: its own CLUSTER NODES line carries the [slot->-node] marker for minutes)
		// when another of its slots changes owner.  The redirection for that slot must lead to a refresh round that
		// picks up the new layout although the reply describes a migration in progress.
		sc.Class = "open-migration"
		sc.IdleFaults = false
		sc.Env = world.RedisCfg{Masters: 2}
		src := r.Intn(2)
		sc.Env.SeedNodes = []int{src}
		keys = keysForNodes(r, 2, "h", 3)
		k := keys[src][r.Intn(len(keys[src]))]
		slot := cluster.Slot([]byte(k))
		tag := ""
		for i := 0; ; i++ {
			tag = fmt.Sprintf("{om%d}", i)
			if s := cluster.Slot([]byte(tag)); s != slot && s/(cluster.NumSlots/2) == src {
				break
			}
		}
		for i := 0; i < 5; i++ {
			sc.Env.Preload = append(sc.Env.Preload, world.KV{K: world.Bin(fmt.Sprintf("%s%d", tag, i)), V: world.Bin(uniqueVal("om", i, 8))})
		}
		sc.MigStepMs = 50000
		sc.SlackMs = []int{0, 1, 1000}[r.Intn(3)]
		sc.Conns = []ConnScript{{Name: "c0", Reqs: []world.Request{
			{Args: world.Bins("GET", k), Wait: true},
			{Args: world.Bins("GET", k), Wait: true, Gap: 60000},
		}}}
		sc.Faults = []Fault{
			{Kind: "layout", From: slot, To: slot, Dst: 1 - src, OnCmd: "cluster", Nth: 2 + r.Intn(2)},
			{Kind: "mig-start", From: cluster.Slot([]byte(tag)), Dst: 1 - src, OnCmd: "cluster", Nth: 1},
		}
		sc.Probes, sc.Probes2 = nil, nil
		return sc
	}
	if r.Chance(1, 12) {
		// class "named-seed-reset": the host list names its single seed node by host name (the cluster speaks in IP
		// addresses); the proxy's connections to that node are reset; later one of its slots changes owner.  The
		// redirection must still lead to a refresh round - over a new connection to the named seed.
		sc.Class = "named-seed-reset"
		sc.IdleFaults = false
		sc.Env = world.RedisCfg{Masters: 2, NamedSeeds: true}
		src := r.Intn(2)
		sc.Env.SeedNodes = []int{src}
		keys = keysForNodes(r, 2, "h", 3)
		k := keys[src][r.Intn(len(keys[src]))]
		slot := cluster.Slot([]byte(k))
		sc.SlackMs = []int{0, 1, 1000}[r.Intn(3)]
		sc.Conns = []ConnScript{{Name: "c0", Reqs: []world.Request{
			{Args: world.Bins("GET", k), Wait: true},
			{Args: world.Bins("GET", k), Wait: true},
			{Args: world.Bins("GET", k), Wait: true, Gap: 60000},
		}}}
		sc.Faults = []Fault{
			{Kind: "layout", From: slot, To: slot, Dst: 1 - src, AtMs: 90000},
			{Kind: []string{"rst", "fin"}[r.Intn(2)], Node: src, AtMs: 5000 + r.Intn(60000)},
		}
		sc.Probes, sc.Probes2 = nil, nil
		return sc
	}
	if r.Chance(1, 10) {
		// class "dead-seed": one of the seed nodes (a replica nobody reads from) dies and stays dead; the others stay
		// reachable.  Later a slot changes owner: the refresh rounds that the redirection sets off must get past the
		// dead seed, whichever node answered the refresh before.
		sc.Class = "dead-seed"
		sc.IdleFaults = false
		sc.Env = world.RedisCfg{Masters: 2, Replicas: 1, ConnectMs: 1000}
		src := r.Intn(2)
		keys = keysForNodes(r, 2, "h", 3)
		k := keys[src][r.Intn(len(keys[src]))]
		slot := cluster.Slot([]byte(k))
		sc.SlackMs = []int{0, 1, 1000}[r.Intn(3)]
		sc.Conns = []ConnScript{{Name: "c0", Reqs: []world.Request{
			{Args: world.Bins("GET", k), Wait: true},
			{Args: world.Bins("GET", k), Wait: true},
			{Args: world.Bins("GET", k), Wait: true, Gap: 60000},
		}}}
		sc.Faults = []Fault{
			{Kind: "layout", From: slot, To: slot, Dst: 1 - src, AtMs: 300000},
			{Kind: "crash", Node: 2 + r.Intn(2), AtMs: 5000 + r.Intn(200000)},
		}
		sc.Probes, sc.Probes2 = nil, nil
		return sc
	}
	if r.Chance(1, 10) && m >= 2 {
		// class "replica-move": reads may go to replicas; one replica is re-attached to another master (the masters
		// keep their ids, addresses and slots). After the refresh rounds that the first redirection triggers, reads
		// are no longer redirected.
		sc.Class = "replica-move"
		sc.Env.Replicas = 1
		sc.Env.ReadStrategy = 1 + r.Intn(2)
		rep := m + r.Intn(m)
		sc.Faults = append(sc.Faults, Fault{Kind: "replica-move", Node: rep, Dst: r.Intn(m), AfterSend: r.Intn(250)})
		sc.SettleMs = []int{0, 100, 6000, 130000}[r.Intn(4)]
		pr := ConnScript{Name: "p0"}
		pr2 := ConnScript{Name: "q0"}
		for _, k := range all {
			for j := 0; j < 3; j++ { // several reads per key: some go to the master, some to a replica
				pr.Reqs = append(pr.Reqs, world.Request{Args: world.Bins("GET", k), Wait: r.Chance(1, 2)})
				pr2.Reqs = append(pr2.Reqs, world.Request{Args: world.Bins("GET", k), Wait: r.Chance(1, 2)})
			}
		}
		sc.Probes, sc.Probes2 = []ConnScript{pr}, []ConnScript{pr2}
		return sc
	}
	// faults
	class := r.Intn(5)
	node := r.Intn(m)
	at := r.Intn(250)
	switch class {
	case 0:
		sc.Class = "reset"
		for i := 0; i < 1+r.Intn(3); i++ {
			sc.Faults = append(sc.Faults, Fault{Kind: []string{"rst", "fin"}[r.Intn(2)], Node: r.Intn(m), AfterSend: at + i*r.Intn(120)})
		}
	case 1:
		sc.Class = "restart"
		sc.Faults = append(sc.Faults, Fault{Kind: "crash", Node: node, AfterSend: at})
		sc.Faults = append(sc.Faults, Fault{Kind: "restart", Node: node, AfterSend: at + 1 + r.Intn(400)})
	case 2:
		sc.Class = "first-connect-fails"
		sc.Down = map[string]string{fmt.Sprint(node): []string{"refuse", "blackhole"}[r.Intn(2)]}
		sc.Faults = append(sc.Faults, Fault{Kind: "up", Node: node, AfterSend: at + r.Intn(300)})
		if m == 1 {
			// the only seed host is down at start: clients cannot wait for a loaded table
			for i := range sc.Conns {
				sc.Conns[i].Early = true
			}
		}
	case 3:
		sc.Class = "layout"
		if m < 2 {
			sc.Env.Masters = 2
			m = 2
		}
		from := r.Intn(cluster.NumSlots)
		to := from + r.Intn(cluster.NumSlots-from)
		sc.Faults = append(sc.Faults, Fault{Kind: "layout", From: from, To: to, Dst: r.Intn(m), AfterSend: at})
		if r.Chance(1, 2) {
			// reads go to replicas that discovery has not announced (the host list names the masters only): the refresh
			// rounds that the layout change sets off happen while reads are queued on the replica connections
			sc.Class = "layout+replica-reads"
			sc.Env.Replicas = 1
			sc.Env.ReadStrategy = 1 + r.Intn(2)
			sc.Env.SeedMasters = true
		}
	default:
		sc.Class = "mixed"
		sc.Faults = append(sc.Faults, Fault{Kind: "rst", Node: r.Intn(m), AfterSend: at})
		sc.Faults = append(sc.Faults, Fault{Kind: "crash", Node: node, AfterSend: at + r.Intn(100)})
		sc.Faults = append(sc.Faults, Fault{Kind: "restart", Node: node, AfterSend: at + 100 + r.Intn(300)})
		if m >= 2 {
			sc.Faults = append(sc.Faults, Fault{Kind: "layout", From: 0, To: r.Intn(cluster.NumSlots), Dst: r.Intn(m), AfterSend: at + r.Intn(500)})
		}
	}
	// probes after healing: every key of every node, through a fresh and through an old connection's successor
	sc.SettleMs = []int{0, 100, 6000, 130000, 400000}[r.Intn(5)]
	pr := ConnScript{Name: "p0"}
	for _, k := range all {
		pr.Reqs = append(pr.Reqs, world.Request{Args: world.Bins("GET", k), Wait: r.Chance(1, 2)})
	}
	sc.Probes = []ConnScript{pr}
	pr2 := ConnScript{Name: "q0"}
	for _, k := range all {
		pr2.Reqs = append(pr2.Reqs, world.Request{Args: world.Bins("GET", k), Wait: r.Chance(1, 2)})
	}
	sc.Probes2 = []ConnScript{pr2}
	return sc
}

func (p c07) Run(t *testing.T, s harness.Scenario) harness.Outcome {
	sc := s.(*RedisScenario)
	w := newRedisWorld(sc)
	if sc.Class == "refresh-in-flight" || sc.Class == "open-migration" || sc.Class == "named-seed-reset" || sc.Class == "dead-seed" {
		return p.runRefreshInFlight(t, sc, w)
	}
	w.fin = func(w *redisWorld) *simrtViolation {
		if w.probeRound < 1 {
			return nil
		}
		// (a) requests issued after the backends are reachable again and the proxy has quiesced are served
		// with the right result.  Writes of phase 0 may or may not have happened when they got an error, so the
		// probes read keys and accept either the preloaded value or any value a phase-0 SET tried to store.
		allowed := map[string]map[string]bool{}
		for _, kv := range sc.Env.Preload {
			allowed[string(kv.K)] = map[string]bool{string(kv.V): true}
		}
		for _, c := range sc.Conns {
			for _, rq := range c.Reqs {
				if len(rq.Args) == 3 && string(rq.Args[0]) == "SET" {
					if allowed[string(rq.Args[1])] == nil {
						allowed[string(rq.Args[1])] = map[string]bool{}
					}
					allowed[string(rq.Args[1])][string(rq.Args[2])] = true
				}
			}
		}
		for _, c := range w.probeClients {
			for _, sn := range c.Sent {
				if !sn.Answered {
					continue // liveness is judged by the common oracle
				}
				key := string(c.Script[sn.Idx].Args[1])
				if sn.Reply.IsErr() {
					return &simrtViolation{Clause: "served-after-heal",
						Detail: fmt.Sprintf("probe %s GET %q, issued %dms after the last fault with every backend reachable and the proxy quiescent, was answered with error %s; faults=%v", c.Name, key, sc.SettleMs, sn.Reply.String(), sc.Faults)}
				}
				if sn.Reply.Null || !allowed[key][string(sn.Reply.Str)] {
					return &simrtViolation{Clause: "served-after-heal",
						Detail: fmt.Sprintf("probe %s GET %q returned %s, which is neither the stored value nor a value written by any request", c.Name, key, sn.Reply.String())}
				}
			}
		}
		// (c) after a layout change routing converges: the second probe round causes no redirection
		if len(w.redirectsAtProbe) >= 2 && w.probeRound >= 2 {
			if d := w.env.Cluster.Redirects - w.redirectsAtProbe[1]; d > 0 {
				return &simrtViolation{Clause: "routing-converges",
					Detail: fmt.Sprintf("%d redirections during the second probe round, %dms+ after the layout change and after a full earlier round of redirected requests; faults=%v", d, 2*sc.SettleMs, sc.Faults)}
			}
		}
		// (b) error replies only while the backend is actually unreachable: an error for a request invoked after
		// the proxy was quiescent with everything reachable again
		lastFault := int64(-1)
		for _, st := range w.faultSteps {
			if st > lastFault {
				lastFault = st
			}
		}
		healed := int64(-1)
		for _, q := range w.quietSteps {
			if q > lastFault {
				healed = q
				break
			}
		}
		if healed >= 0 {
			for _, c := range w.env.Clients {
				for _, sn := range c.Sent {
					if sn.Answered && sn.Reply.IsErr() && sn.InvokeStep > healed {
						return &simrtViolation{Clause: "error-only-while-unreachable",
							Detail: fmt.Sprintf("connection %s request #%d %s invoked at step %d (healed and quiescent since step %d) got %s", c.Name, sn.Idx, describeReq(c.Script[sn.Idx]), sn.InvokeStep, healed, sn.Reply.String())}
					}
				}
			}
		}
		return nil
	}
	out := runRedis(t, sc, w)
	nf := 0
	for _, n := range out.Faults {
		nf += n
	}
	out.Nontrivial = w.probeRound >= 1 && len(w.faultSteps) > 0
	return out
}

// runRefreshInFlight: see the class comment in Gen.
func (p c07) runRefreshInFlight(t *testing.T, sc *RedisScenario, w *redisWorld) harness.Outcome {
	o := 0 // index of the request that waits for the layout change
	if sc.Class == "named-seed-reset" || sc.Class == "dead-seed" {
		o = 1 // a warm-up request comes first
	}
	if len(sc.Conns) == 0 || len(sc.Conns[0].Reqs) < o+2 {
		return runRedis(t, sc, w) // shrunk out of shape: only the common oracle applies
	}
	key := string(sc.Conns[0].Reqs[o].Args[1])
	w.step = func(w *redisWorld) *simrtViolation {
		for _, c := range w.env.Clients {
			if c.Gate == nil {
				// that request waits for the layout change
				c.Gate = func(c *world.Client, idx int) bool { return idx != o || (len(w.fired) > 0 && w.fired[0]) }
			}
			if len(w.fired) > 0 && w.fired[0] && len(c.Sent) == o {
				c.Kick()
			}
		}
		return nil
	}
	w.fin = func(w *redisWorld) *simrtViolation {
		var c *world.Client
		for _, x := range w.env.Clients {
			c = x
		}
		if c == nil || len(c.Sent) < o+2 || !c.Sent[o].Answered || !c.Sent[o+1].Answered {
			return nil // liveness is the common oracle's business
		}
		for _, sn := range c.Sent {
			if sn.Reply.IsErr() {
				return &simrtViolation{Clause: "error-only-while-unreachable", Detail: fmt.Sprintf("GET %q got %s although every node is reachable", key, sn.Reply.String())}
			}
		}
		// what did the nodes see of the two GETs?  redirections before the second GET was sent belong to the first
		first, second := 0, 0
		for _, le := range w.env.Cluster.Log {
			if le.Accepted || len(le.Args) != 2 || !strings.EqualFold(string(le.Args[0]), "get") || string(le.Args[1]) != key {
				continue
			}
			if le.Step < c.Sent[o].InvokeStep {
				continue // the warm-up
			}
			if le.Step < c.Sent[o+1].InvokeStep {
				first++
			} else {
				second++
			}
		}
		w.rt.Probe(fmt.Sprintf("c07.first-get-redirections-%d", first))
		if first > 0 && second > 0 {
			return &simrtViolation{Clause: "routing-converges", Detail: fmt.Sprintf("GET %q was redirected %d time(s) when its slot had just moved; one simulated minute later, with every node reachable and no further layout change, the same GET was redirected again (%d time(s)): the redirection did not lead to a refresh round that picked up the new layout", key, first, second)}
		}
		return nil
	}
	out := runRedis(t, sc, w)
	out.Nontrivial = len(w.faultSteps) > 0 && w.faultSteps[0] >= 0
	return out
}

func (p c07) Shrink(s harness.Scenario) []harness.Scenario {
	sc := s.(*RedisScenario)
	out := shrinkRedis(sc)
	if sc.SettleMs > 0 {
		c := cloneRedis(sc)
		c.SettleMs = 0
		out = append(out, c)
	}
	for i := range sc.Probes {
		if n := len(sc.Probes[i].Reqs); n > 1 {
			c := cloneRedis(sc)
			c.Probes = []ConnScript{{Name: sc.Probes[i].Name, Reqs: append([]world.Request(nil), sc.Probes[i].Reqs[:n/2]...)}}
			out = append(out, c)
			c2 := cloneRedis(sc)
			c2.Probes = []ConnScript{{Name: sc.Probes[i].Name, Reqs: append([]world.Request(nil), sc.Probes[i].Reqs[n/2:]...)}}
			out = append(out, c2)
		}
	}
	if len(sc.Probes2) > 0 {
		c := cloneRedis(sc)
		c.Probes2 = nil
		out = append(out, c)
	}
	return out
}

var _ = refredis.New

package profiles

import (
	"fmt"
	"testing"
	"time"

	"github.com/samaritan-proxy/samaritan/host"
	"github.com/samaritan-proxy/samaritan/pb/config/service"
	"github.com/samaritan-proxy/samaritan/proc"

	"verif.local/sim/harness"
	"verif.local/sim/simhook"
	"verif.local/sim/simrt"
	"verif.local/sim/world"
)

// C06 — TCP: connections go only to current healthy hosts, per the balancing policy.
type c06 struct{}

func init() { harness.Register(c06{}) }

type C06Scenario struct {
	harness.Meta
	Kind string `json:"kind"` // policy | e2e
	// policy level
	Policy int `json:"policy,omitempty"`
	Hosts  int `json:"hosts,omitempty"`
	Tasks  int `json:"tasks,omitempty"`
	Rounds int `json:"rounds,omitempty"` // picks per task = Rounds*Hosts/Tasks style, see Run
	// Services > 1: that many services of the same policy select at the same time, each with its own balancer
	// (from lb.New) and its own host list, as several TCP services of one process do
	Services int   `json:"services,omitempty"`
	Conns    []int `json:"conn_counts,omitempty"`
	RandSeq  []int `json:"rand_seq,omitempty"`
	// end to end
	T *TCPScenario `json:"tcp,omitempty"`
}

func (s *C06Scenario) GetMeta() *harness.Meta {
	if s.T != nil {
		return &s.T.Meta
	}
	return &s.Meta
}

func (c06) ID() string              { return "C06" }
func (c06) Empty() harness.Scenario { return &C06Scenario{} }
func (c06) NontrivialRule() string {
	return "policy runs are non-trivial with >= 2 concurrent selecting tasks and >= 2 hosts; end-to-end runs when at least one membership change (add/remove/replace) happened while connections arrived; distinct = distinct (scenario, execution-hash) pairs"
}
func (c06) Components() ([]string, []string) {
	return []string{"internal/lb (round-robin, random, least-connection; via verif re-export)", "tcp.tcpProc.HandleConn (selection, dial, removal watcher)", "host.Set (tiers, healthy cache, removal notification)", "proc.listener"},
		[]string{"network (simnet)", "TCP backends and clients with keyed streams", "reference host-set model (members, tiers)"}
}

func (p c06) Gen(r *simhook.Rand, tier string, idx int) harness.Scenario {
	if r.Chance(1, 3) {
		sc := &C06Scenario{Meta: harness.GenMeta(r, 0), Kind: "policy"}
		sc.Class = "policy"
		sc.Policy = r.Intn(3)
		sc.Hosts = 1 + r.Intn(9)
		sc.Tasks = 2 + r.Intn(7)
		sc.Rounds = 1 + r.Intn(4)
		if r.Chance(1, 3) {
			sc.Services = 2 + r.Intn(2)
		}
		for i := 0; i < sc.Hosts; i++ {
			sc.Conns = append(sc.Conns, r.Intn(4))
		}
		for i := 0; i < 64; i++ {
			sc.RandSeq = append(sc.RandSeq, r.Intn(1<<20))
		}
		return sc
	}
	ts := &TCPScenario{Meta: harness.GenMeta(r, 0)}
	ts.Class = "e2e"
	nb := 1 + r.Intn(6)
	ts.Env = world.TCPCfg{Backends: nb, Policy: r.Intn(3)}
	if nb > 1 && r.Chance(1, 2) {
		ts.Env.BackupFrom = 1 + r.Intn(nb-1)
	}
	if r.Chance(1, 3) {
		// start with a subset
		for i := 0; i < nb; i++ {
			if r.Chance(1, 2) {
				ts.Env.InitHosts = append(ts.Env.InitHosts, i)
			}
		}
		if ts.Env.InitHosts == nil {
			ts.Env.InitHosts = []int{}
		}
	}
	if r.Chance(1, 10) {
		// class "lc-after-dial-failures": least-connection over two backends, arrivals strictly one after the other with
		// the random source fed from the scenario, so both samples of every pick are known. Phase 1: one backend refuses
		// connections while short connections come and go; phase 2: it is back and long-lived connections arrive.
		// Every pick must be what least-connection prescribes for the true connection counts of its two samples.
		ts = &TCPScenario{Meta: harness.GenMeta(r, 0)}
		ts.Class = "lc-after-dial-failures"
		ts.SlackMs, ts.Dense, ts.Strategy = 0, false, "uniform"
		ts.Env = world.TCPCfg{Backends: 2, Policy: 1}
		down := r.Intn(2)
		ts.Faults = []TCPFault{{Kind: "backend-down", Node: down, AfterStart: 1}, {Kind: "backend-up", Node: down, AtMs: 5000}}
		n1, n2 := 3+r.Intn(6), 6+r.Intn(8)
		for i := 0; i < n1; i++ {
			ts.Conns = append(ts.Conns, TCPConn{Name: fmt.Sprintf("s%d", i), C2S: StreamSpec{Len: 1}, S2C: StreamSpec{Len: 1}, AfterMs: 200 + i*500})
		}
		for i := 0; i < n2; i++ {
			ts.Conns = append(ts.Conns, TCPConn{Name: fmt.Sprintf("l%d", i), C2S: StreamSpec{Len: 1, Finish: "none"}, S2C: StreamSpec{Len: 1, Finish: "none"}, AfterMs: 8000 + i*1000})
		}
		for i := 0; i < 2*(n1+n2)+4; i++ {
			ts.RandSeq = append(ts.RandSeq, r.Intn(1000))
		}
		return &C06Scenario{Kind: "e2e", T: ts}
	}
	if r.Chance(1, 10) {
		// class "rr-config-update": round-robin over a stable set of backends, arrivals strictly one after the other,
		// and configuration updates that do not touch the policy in between: the rotation must not notice them
		ts = &TCPScenario{Meta: harness.GenMeta(r, 0)}
		ts.Class = "rr-config-update"
		ts.SlackMs, ts.Dense, ts.Strategy = 0, false, "uniform"
		n := 2 + r.Intn(3)
		ts.Env = world.TCPCfg{Backends: n, Policy: 0}
		nc := 2*n + r.Intn(2*n+1)
		for i := 0; i < nc; i++ {
			ts.Conns = append(ts.Conns, TCPConn{Name: fmt.Sprintf("s%d", i), C2S: StreamSpec{Len: 1}, S2C: StreamSpec{Len: 1}, AfterMs: 200 + i*500})
		}
		for i := 0; i < 1+r.Intn(3); i++ {
			ts.Faults = append(ts.Faults, TCPFault{Kind: "config-update", AtMs: 200 + (1+r.Intn(nc-1))*500 - 250})
		}
		return &C06Scenario{Kind: "e2e", T: ts}
	}
	nconn := 1 + r.Intn(8)
	for i := 0; i < nconn; i++ {
		c := TCPConn{Name: fmt.Sprintf("c%d", i), C2S: StreamSpec{Len: r.Intn(300)}, S2C: StreamSpec{Len: r.Intn(300)}, After: r.Intn(150)}
		if r.Chance(1, 2) {
			// long lived: stays established until a removal closes it or the run ends
			c.C2S.Finish, c.S2C.Finish = "none", "none"
		}
		ts.Conns = append(ts.Conns, c)
	}
	if nb >= 2 && r.Chance(1, 8) {
		// class "health-tiers": main and backup members, health checking; every main member fails its probes for a while
		// (the backups serve), then main members recover.  A connection that arrives well after a main member has
		// been answering its probes again must not be relayed to a backup.
		ts.Class = "e2e-health-tiers"
		ts.SlackMs = []int{0, 20, 100}[r.Intn(3)]
		ts.Env.BackupFrom = 1 + r.Intn(nb-1)
		ts.Env.InitHosts = nil
		ts.Faults = nil
		fall, rise := 1+r.Intn(2), 1+r.Intn(2)
		ts.Env.HC = &world.HCCfg{IntervalMs: 1000, TimeoutMs: 200, Fall: fall, Rise: rise}
		down := 300 + r.Intn(1500)
		up := down + (fall+3+r.Intn(4))*1000
		for m := 0; m < ts.Env.BackupFrom; m++ {
			ts.Faults = append(ts.Faults, TCPFault{Kind: "probe-fail", Node: m, AtMs: down + r.Intn(300)})
			if m == 0 || r.Chance(1, 2) {
				ts.Faults = append(ts.Faults, TCPFault{Kind: "probe-ok", Node: m, AtMs: up + r.Intn(2000)})
			}
		}
		for i := range ts.Conns {
			ts.Conns[i].After = 0
			ts.Conns[i].AfterMs = r.Intn(up + 14000)
		}
		return &C06Scenario{Kind: "e2e", T: ts}
	}
	if r.Chance(1, 3) {
		// class "health": an advanced-TCP health checker probes the backends; one backend fails its probes for a
		// while and recovers, and is removed from the service at the moment the monitor is about to mark it
		ts.Class = "e2e-health"
		ts.SlackMs = []int{0, 20, 100}[r.Intn(3)] // a health verdict is about time: keep the timers of the monitor nearly punctual
		ts.Env.BackupFrom = 0
		ts.Env.InitHosts = nil
		fall, rise := 1+r.Intn(2), 1+r.Intn(2)
		ts.Env.HC = &world.HCCfg{IntervalMs: 1000, TimeoutMs: 200, Fall: fall, Rise: rise}
		h := r.Intn(nb)
		down := 300 + r.Intn(1500)
		up := down + (fall+2+r.Intn(3))*1000
		ts.Faults = append(ts.Faults, TCPFault{Kind: "probe-fail", Node: h, AtMs: down})
		ts.Faults = append(ts.Faults, TCPFault{Kind: "probe-ok", Node: h, AtMs: up})
		if r.Chance(1, 2) {
			// the discovery service announces the (already known) host again while it is marked unhealthy: the
			// controller calls OnSvcHostAdd with a fresh Host object; membership and health must not change
			readd := down + (fall+1)*1000 + r.Intn(800)
			up2 := readd + 3000 + r.Intn(4000)
			ts.Faults[len(ts.Faults)-1].AtMs = up2
			ts.Faults = append(ts.Faults, TCPFault{Kind: "host-add", Node: h, AtMs: readd})
			for i := range ts.Conns {
				ts.Conns[i].After = 0
				ts.Conns[i].AfterMs = r.Intn(up2 + 8000)
			}
			return &C06Scenario{Kind: "e2e", T: ts}
		}
		switch r.Intn(3) {
		case 0:
			ts.Faults = append(ts.Faults, TCPFault{Kind: "host-remove", Node: h, AtMs: up, Site: "MarkHostHealthy#"})
		case 1:
			ts.Faults = append(ts.Faults, TCPFault{Kind: "host-remove", Node: h, AtMs: down, Site: "MarkHostUnhealthy#"})
		default:
			ts.Faults = append(ts.Faults, TCPFault{Kind: "host-remove", Node: h, AtMs: up + r.Intn(4000)})
		}
		for i := range ts.Conns {
			ts.Conns[i].After = 0
			ts.Conns[i].AfterMs = r.Intn(up + 8000)
		}
		return &C06Scenario{Kind: "e2e", T: ts}
	}
	nf := r.Intn(5)
	for i := 0; i < nf; i++ {
		f := TCPFault{After: r.Intn(200)}
		switch r.Intn(4) {
		case 0:
			f.Kind, f.Node = "host-remove", r.Intn(nb)
			// the store matches endpoints by address and hands on whatever object the remover gave: its type may
			// differ from the stored one
			f.AsBackup = r.Chance(1, 3)
			if r.Chance(1, 4) {
				f.Extra = []string{"dup", "unknown"}[r.Intn(2)]
			}
		case 1:
			f.Kind, f.Node = "host-add", r.Intn(nb)
			// an endpoint may be announced again with the other type (main <-> backup), no removal in between
			f.OtherType = r.Chance(1, 4)
		case 2:
			f.Kind = "host-replace"
			for k := 0; k < nb; k++ {
				if r.Chance(1, 2) {
					f.Nodes = append(f.Nodes, k)
				}
			}
		default:
			f.Kind, f.Node = "host-remove", r.Intn(nb)
		}
		ts.Faults = append(ts.Faults, f)
	}
	return &C06Scenario{Kind: "e2e", T: ts}
}

func (p c06) Run(t *testing.T, s harness.Scenario) harness.Outcome {
	sc := s.(*C06Scenario)
	if sc.Kind == "policy" {
		return p.runPolicy(t, sc)
	}
	return p.runE2E(t, sc)
}

func (p c06) runPolicy(t *testing.T, sc *C06Scenario) harness.Outcome {
	var allHosts [][]*host.Host
	counts := map[*host.Host]int{}
	nsvc := sc.Services
	if nsvc < 1 {
		nsvc = 1
	}
	var bad *simrt.Violation
	w := &taskWorld{}
	randPos := 0
	w.setup = func(w *taskWorld) {
		allHosts = nil
		// the two samples of least-connection are known: the random source is fed from the scenario
		proc.VerifSetLBRandInt(func() int {
			v := sc.RandSeq[randPos%len(sc.RandSeq)]
			randPos++
			return v
		})
		for si := 0; si < nsvc; si++ {
			var hosts []*host.Host
			for i := 0; i < sc.Hosts; i++ {
				h := host.New(world.BackendAddr(si*20 + i))
				for k := 0; k < sc.Conns[i]; k++ {
					h.IncConnCount()
				}
				hosts = append(hosts, h)
			}
			allHosts = append(allHosts, hosts)
			b := proc.VerifNewBalancer(service.LoadBalancePolicy(sc.Policy))
			isMember := func(h *host.Host) bool {
				for _, x := range hosts {
					if x == h {
						return true
					}
				}
				return false
			}
			total := sc.Rounds * sc.Hosts * sc.Tasks // every task makes Rounds*Hosts picks: n*k picks overall with k = Rounds*Tasks
			_ = total
			for ti := 0; ti < sc.Tasks; ti++ {
				w.Go(fmt.Sprintf("harness:picker%d.%d", si, ti), func() {
					for k := 0; k < sc.Rounds*sc.Hosts; k++ {
						var s1, s2 int
						if sc.Policy == int(service.LoadBalancePolicy_LEAST_CONNECTION) && sc.Tasks == 1 {
							s1, s2 = sc.RandSeq[randPos%len(sc.RandSeq)]%len(hosts), sc.RandSeq[(randPos+1)%len(sc.RandSeq)]%len(hosts)
						}
						h := b.PickHost(hosts)
						if h == nil || !isMember(h) {
							bad = &simrt.Violation{Clause: "pick-is-member", Detail: fmt.Sprintf("policy %s returned %v which is not in the candidate list", b.Name(), h)}
							return
						}
						if sc.Policy == int(service.LoadBalancePolicy_LEAST_CONNECTION) && sc.Tasks == 1 {
							a, c := hosts[s1], hosts[s2]
							busier := a
							if c.ConnCount() > a.ConnCount() {
								busier = c
							}
							if a.ConnCount() != c.ConnCount() && h == busier {
								bad = &simrt.Violation{Clause: "least-conn-not-busier-sample", Detail: fmt.Sprintf("samples %s(%d conns) and %s(%d conns): the strictly busier one was returned", a.Addr, a.ConnCount(), c.Addr, c.ConnCount())}
								return
							}
						}
						counts[h]++ // harness bookkeeping: tasks run one at a time
					}
				})
			}
			if b.PickHost(nil) != nil {
				bad = &simrt.Violation{Clause: "pick-is-member", Detail: "PickHost on an empty list returned a host"}
			}
		}
	}
	w.check = func(w *taskWorld) *simrt.Violation { return bad }
	w.final = func(w *taskWorld) *simrt.Violation {
		if bad != nil {
			return bad
		}
		if !w.allDead() {
			return &simrt.Violation{Clause: "pick-returns", Detail: fmt.Sprintf("PickHost calls have not returned: %v", w.blocked()), Sites: w.blocked()}
		}
		if sc.Policy == int(service.LoadBalancePolicy_ROUND_ROBIN) {
			k := sc.Rounds * sc.Tasks
			for si, hosts := range allHosts {
				for _, h := range hosts {
					if counts[h] != k {
						return &simrt.Violation{Clause: "round-robin-exact", Detail: fmt.Sprintf("service %d of %d (each with its own balancer): %d hosts, %d concurrent tasks, %d picks in total: host %s was returned %d times instead of %d", si, len(allHosts), sc.Hosts, sc.Tasks, k*sc.Hosts, h.Addr, counts[h], k)}
					}
				}
			}
		}
		return nil
	}
	if sc.Policy == int(service.LoadBalancePolicy_LEAST_CONNECTION) && sc.Strategy != "" && sc.Seed%2 == 0 {
		// the sample oracle needs a single task
	}
	res := simrt.Run(t, w, sc.Options())
	proc.VerifSetLBRandInt(nil)
	return harness.Outcome{Res: res, Faults: map[string]int{}, Nontrivial: sc.Tasks >= 2 && sc.Hosts >= 2}
}

// usable: the reference model of the hosts a connection may be sent to: members of the preferred tier
// (main if the set has a main member, otherwise backup); without a health checker every member is healthy.
func usable(members map[int]bool, isBackup map[int]bool) map[int]bool {
	main, backup := map[int]bool{}, map[int]bool{}
	for i := range members {
		if isBackup[i] {
			backup[i] = true
		} else {
			main[i] = true
		}
	}
	if len(main) > 0 {
		return main
	}
	return backup
}

// runLC: class "lc-after-dial-failures" (see Gen).
func (p c06) runLC(t *testing.T, ts *TCPScenario) harness.Outcome {
	w := newTCPWorld(ts)
	var draws []int
	pos := 0
	proc.VerifSetLBRandInt(func() int {
		v := ts.RandSeq[pos%len(ts.RandSeq)]
		pos++
		draws = append(draws, v)
		return v
	})
	defer proc.VerifSetLBRandInt(nil)
	judged := 0
	w.fin = func(w *tcpWorld) *simrt.Violation {
		if len(w.clients) != len(ts.Conns) {
			return nil
		}
		if len(ts.Faults) != 2 || ts.Faults[0].Kind != "backend-down" || ts.Faults[1].Kind != "backend-up" || !w.fired[0] || !w.fired[1] {
			return nil // not the history this class is about (a shrunk scenario may have lost a fault)
		}
		// arrivals are strictly sequential: the i-th connection made the i-th pick with draws 2i and 2i+1
		if len(draws) != 2*len(ts.Conns) {
			return nil // a pick was repeated or skipped: not the history this oracle reasons about
		}
		down := ts.Faults[0].Node
		counts := []int{0, 0} // true numbers of established long-lived connections per backend
		for i, cl := range w.clients {
			s1, s2 := draws[2*i]%2, draws[2*i+1]%2
			want := s2
			if counts[s1] < counts[s2] {
				want = s1
			}
			long := ts.Conns[i].C2S.Finish == "none"
			got := -1
			if cl.other != nil {
				fmt.Sscanf(cl.other.header, "B%03d.", &got)
			}
			if !long {
				// phase 1: a pick of the refusing backend ends in a closed connection, any other is relayed
				if want == down {
					if got >= 0 {
						return &simrt.Violation{Clause: "least-connection-picks-less-busy-sample", Detail: fmt.Sprintf("connection %s: samples %d and %d with %v connections: least-connection picks backend %d (which refuses connections), the connection was relayed to backend %d", cl.name, s1, s2, counts, want, got)}
					}
				} else if got != want {
					return &simrt.Violation{Clause: "least-connection-picks-less-busy-sample", Detail: fmt.Sprintf("connection %s: samples %d and %d with %v connections: least-connection picks backend %d, the connection went to %d", cl.name, s1, s2, counts, want, got)}
				}
				continue
			}
			judged++
			if got != want {
				return &simrt.Violation{Clause: "least-connection-picks-less-busy-sample", Detail: fmt.Sprintf("connection %s (long-lived, arrived after backend %d had refused connections for a while and recovered): its pick sampled backends %d and %d, which carry %d and %d established connections; least-connection prescribes backend %d, the connection was relayed to backend %d", cl.name, down, s1, s2, counts[s1], counts[s2], want, got)}
			}
			counts[got]++
		}
		return nil
	}
	out := runTCP(t, ts, w)
	out.Nontrivial = judged >= 4
	return out
}

// runRR: class "rr-config-update" (see Gen).
func (p c06) runRR(t *testing.T, ts *TCPScenario) harness.Outcome {
	w := newTCPWorld(ts)
	judged := 0
	w.fin = func(w *tcpWorld) *simrt.Violation {
		n := ts.Env.Backends
		if len(w.clients) != len(ts.Conns) || n < 2 {
			return nil
		}
		for _, f := range ts.Faults {
			if f.Kind != "config-update" {
				return nil // not the history this class is about
			}
		}
		var got []int
		for _, cl := range w.clients {
			g := -1
			if cl.other != nil {
				fmt.Sscanf(cl.other.header, "B%03d.", &g)
			}
			if g < 0 {
				return &simrt.Violation{Clause: "relayed-to-usable-host", Detail: fmt.Sprintf("connection %s was not relayed to any backend although all %d backends are members and accept connections", cl.name, n)}
			}
			got = append(got, g)
		}
		for i := 0; i+n <= len(got); i++ {
			seen := map[int]bool{}
			for _, g := range got[i : i+n] {
				seen[g] = true
			}
			judged++
			if len(seen) != n {
				return &simrt.Violation{Clause: "round-robin-exact", Detail: fmt.Sprintf("round-robin over %d unchanged backends, connections arriving one after the other: they were relayed to backends %v; connections %d..%d do not visit every backend once (%d configuration updates without a policy change happened in between)", n, got, i, i+n-1, w.cfgUpdates)}
			}
		}
		return nil
	}
	out := runTCP(t, ts, w)
	out.Nontrivial = judged > 0 && w.cfgUpdates > 0
	return out
}

func (p c06) runE2E(t *testing.T, sc *C06Scenario) harness.Outcome {
	if sc.T.Class == "lc-after-dial-failures" {
		return p.runLC(t, sc.T)
	}
	if sc.T.Class == "rr-config-update" {
		return p.runRR(t, sc.T)
	}
	ts := sc.T
	w := newTCPWorld(ts)
	var bad *simrt.Violation
	type removal struct {
		node int
		task *simhook.Task
		at   time.Time
		step int64
	}
	var removals []removal
	changed := false
	w.onServerConn = func(w *tcpWorld, p *peer, b *world.Backend) {}
	w.step = func(w *tcpWorld) *simrt.Violation {
		if bad != nil {
			return bad
		}
		// membership of the reference model at every step: memberHistory (appended when a change is REQUESTED);
		// a change is in flight until its task returns, during which both the old and the new set are admissible
		for _, srv := range w.servers {
			if srv.other == nil || srv.bad != "" || srv.name == "" {
				continue
			}
			if srv.connectedStep < 0 {
				continue
			}
		}
		return nil
	}
	checkConn := func(w *tcpWorld, srv *peer) *simrt.Violation {
		cl := srv.other
		if cl == nil {
			return nil
		}
		var bi int
		fmt.Sscanf(srv.header, "B%03d.", &bi)
		// selection window: from the client's connect to the backend's accept of the relayed connection
		from, to := cl.connectedStep, srv.connectedStep
		ok := false
		var sets []memberEvent
		for i, ev := range w.memberHistory {
			end := int64(1 << 62)
			if i+1 < len(w.memberHistory) {
				end = w.memberHistory[i+1].step
			}
			// the set ev.members is in force during [ev.step, end); a change requested at step s may take effect
			// any time until its task has returned, so the previous set stays admissible until then
			if ev.step <= to && end >= from {
				sets = append(sets, ev)
			}
		}
		for i, ev := range w.memberHistory {
			if i == 0 {
				continue
			}
			// previous set still admissible while the change of ev is in flight
			done := w.changeDone[ev.step]
			if ev.step <= to && (done == 0 || done >= from) {
				sets = append(sets, w.memberHistory[i-1])
			}
		}
		for _, m := range sets {
			if usable(m.members, m.backup)[bi] {
				ok = true
			}
		}
		if ts.Env.HC != nil {
			// considered healthy: a backend whose probes have been failing for far longer than the fall threshold needs
			// (the run is judged at its end: windows that are over by then count as well)
			windows := append([][2]time.Time(nil), w.probeDownPast[bi]...)
			if since, down := w.probeDownSince[bi]; down {
				windows = append(windows, [2]time.Time{since, time.Now().Add(time.Hour)})
			}
			// every timer of the monitor (ticker, probe timeout) may fire late by the run's timer slack
			need := time.Duration((ts.Env.HC.Fall+3)*(ts.Env.HC.IntervalMs+ts.SlackMs)+ts.Env.HC.TimeoutMs+ts.SlackMs) * time.Millisecond
			for _, win := range windows {
				if len(w.members) > 1 && cl.connectedAt.Sub(win[0]) > need && cl.connectedAt.Before(win[1]) {
					return &simrt.Violation{Clause: "relayed-to-healthy-host", Detail: fmt.Sprintf("connection %s was relayed to backend %d whose health probes had been failing for %v (fall threshold %d, interval %dms) while other members were available", cl.name, bi, cl.connectedAt.Sub(win[0]), ts.Env.HC.Fall, ts.Env.HC.IntervalMs)}
				}
			}
		}
		if ts.Class == "e2e-health-tiers" && ts.Env.HC != nil && bi >= ts.Env.BackupFrom {
			// a backup served this connection: admitted unless some main member had been answering its probes for far
			// longer than the rise threshold needs (every timer of the monitor may be late by the run's slack)
			needUp := time.Duration((ts.Env.HC.Rise+3)*(ts.Env.HC.IntervalMs+ts.SlackMs)+ts.Env.HC.TimeoutMs+ts.SlackMs) * time.Millisecond
			for m := 0; m < ts.Env.BackupFrom; m++ {
				windows := append([][2]time.Time(nil), w.probeDownPast[m]...)
				if since, down := w.probeDownSince[m]; down {
					windows = append(windows, [2]time.Time{since, time.Now().Add(time.Hour)})
				}
				longUp := true
				for _, win := range windows {
					if win[0].Before(cl.connectedAt) && win[1].After(cl.connectedAt.Add(-needUp)) {
						longUp = false
					}
				}
				if longUp {
					return &simrt.Violation{Clause: "relayed-to-preferred-tier", Detail: fmt.Sprintf("connection %s was relayed to backup member %d although main member %d had been answering its health probes for more than %v (rise threshold %d, interval %dms)", cl.name, bi, m, needUp, ts.Env.HC.Rise, ts.Env.HC.IntervalMs)}
				}
			}
			ok = true
		}
		if !ok {
			return &simrt.Violation{Clause: "relayed-to-usable-host", Detail: fmt.Sprintf("connection %s (arrived at step %d) was relayed to backend %d (accepted at step %d), which was not a usable member (current endpoint set, preferred tier) at any step of that window; membership history: %v, backups from index %d", cl.name, from, bi, to, w.memberHistory, ts.Env.BackupFrom)}
		}
		return nil
	}
	w.fin = func(w *tcpWorld) *simrt.Violation {
		if bad != nil {
			return bad
		}
		for _, srv := range w.servers {
			if v := checkConn(w, srv); v != nil {
				return v
			}
		}
		// with no usable host throughout its window the client connection is closed without being relayed
		for _, cl := range w.clients {
			if cl.other != nil {
				continue
			}
			if !cl.eof && !cl.reset {
				return &simrt.Violation{Clause: "closed-when-no-usable-host", Detail: fmt.Sprintf("%s was neither relayed to a backend nor closed", cl.name), Sites: w.blockedSites("HandleConn")}
			}
		}
		// established connections to a removed host are closed once the removal has completed
		for _, f := range w.removed {
			for _, srv := range w.servers {
				var bi int
				fmt.Sscanf(srv.header, "B%03d.", &bi)
				if bi != f.node || srv.connectedStep > f.step {
					continue
				}
				if !(srv.eof || srv.reset || srv.finished) {
					return &simrt.Violation{Clause: "established-closed-on-removal", Detail: fmt.Sprintf("backend %d was removed from the service at step %d (removal %s); its connection %s, established at step %d, is still open %v later", f.node, f.step, f.how, srv.name, srv.connectedStep, w.horizon()), Sites: w.blockedSites("HandleConn")}
				}
			}
		}
		return nil
	}
	_ = removals
	out := runTCP(t, ts, w)
	for _, f := range ts.Faults {
		if f.Kind == "host-remove" || f.Kind == "host-add" || f.Kind == "host-replace" {
			changed = true
		}
	}
	out.Nontrivial = changed && len(w.servers) > 0
	return out
}

func (p c06) Shrink(s harness.Scenario) []harness.Scenario {
	sc := s.(*C06Scenario)
	var out []harness.Scenario
	if sc.T != nil && sc.T.Class == "lc-after-dial-failures" {
		// the oracle relies on the shape of the scenario (strictly sequential arrivals, two phases): only drop
		// long-lived connections from the end
		n := len(sc.T.Conns)
		if n > 0 && sc.T.Conns[n-1].C2S.Finish == "none" {
			c := cloneTCP(sc.T)
			c.Conns = c.Conns[:n-1]
			out = append(out, &C06Scenario{Kind: "e2e", T: c})
		}
		return out
	}
	if sc.T != nil && sc.T.Class == "rr-config-update" {
		// strictly sequential arrivals: only drop connections from the end, or a configuration update
		if n := len(sc.T.Conns); n > sc.T.Env.Backends {
			c := cloneTCP(sc.T)
			c.Conns = c.Conns[:n-1]
			out = append(out, &C06Scenario{Kind: "e2e", T: c})
		}
		for i := range sc.T.Faults {
			if len(sc.T.Faults) > 1 {
				c := cloneTCP(sc.T)
				c.Faults = append(append([]TCPFault(nil), c.Faults[:i]...), c.Faults[i+1:]...)
				out = append(out, &C06Scenario{Kind: "e2e", T: c})
			}
		}
		return out
	}
	if sc.Kind == "policy" {
		if sc.Tasks > 1 {
			c := *sc
			c.Tasks--
			out = append(out, &c)
		}
		if sc.Hosts > 1 {
			c := *sc
			c.Hosts--
			c.Conns = c.Conns[:c.Hosts]
			out = append(out, &c)
		}
		if sc.Rounds > 1 {
			c := *sc
			c.Rounds--
			out = append(out, &c)
		}
		return out
	}
	for _, c := range shrinkTCP(sc.T) {
		out = append(out, &C06Scenario{Kind: "e2e", T: c.(*TCPScenario)})
	}
	return out
}

package profiles

import (
	"fmt"
	"testing"
	"verif.local/sim/cluster"

	"verif.local/sim/harness"
	"verif.local/sim/simhook"
	"verif.local/sim/world"
)

// C02 — every request is answered exactly once, even when backends fail.
type c02 struct{}

func init() { harness.Register(c02{}) }

func (c02) ID() string              { return "C02" }
func (c02) Empty() harness.Scenario { return &RedisScenario{} }
func (c02) NontrivialRule() string {
	return "a run is non-trivial when at least one injected fault fired while a client request was outstanding; distinct = distinct (scenario, execution-hash) pairs"
}
func (c02) Components() ([]string, []string) {
	return []string{"proc.listener", "redis.session", "redis.handler", "redis.request", "redis.upstream", "redis.client", "redis.codec", "redis.filters", "hotkey.collector", "host.Set"},
		[]string{"network (simnet)", "Redis cluster nodes (cluster+refredis)", "downstream clients"}
}

var c02Kinds = []string{"rst", "fin", "crash", "host-remove", "host-replace", "stop"}

func genTraffic(r *simhook.Rand, nconn, maxReq int, keys []string, prefix string) []ConnScript {
	var conns []ConnScript
	for ci := 0; ci < nconn; ci++ {
		name := fmt.Sprintf("%s%d", prefix, ci)
		cs := ConnScript{Name: name}
		nreq := 1 + r.Intn(maxReq)
		for k := 0; k < nreq; k++ {
			var req world.Request
			key := keys[r.Intn(len(keys))]
			switch r.Intn(10) {
			case 0, 1, 2:
				req.Args = world.Bins("GET", key)
			case 3, 4:
				req.Args = append(world.Bins("SET", key), world.Bin(uniqueVal(name, k, 8+r.Intn(40))))
			case 5:
				n := 2 + r.Intn(4)
				a := world.Bins("MGET")
				for i := 0; i < n; i++ {
					a = append(a, world.Bin(keys[r.Intn(len(keys))]))
				}
				req.Args = a
			case 6:
				a := world.Bins("MSET")
				for i := 0; i < 1+r.Intn(3); i++ {
					a = append(a, world.Bin(keys[r.Intn(len(keys))]), world.Bin(uniqueVal(name, k*10+i, 12)))
				}
				req.Args = a
			case 7:
				req.Args = world.Bins("DEL", key, keys[r.Intn(len(keys))])
			case 8:
				req.Args = world.Bins("PING")
			default:
				req.Args = append(world.Bins("APPEND", key), world.Bin(uniqueVal(name, k, 6)))
			}
			req.Cut = cutPoints(r, len(req.Encode()))
			if r.Chance(1, 8) {
				req.Wait = true
			}
			cs.Reqs = append(cs.Reqs, req)
		}
		conns = append(conns, cs)
	}
	return conns
}

func genEnv(r *simhook.Rand, maxMasters int) world.RedisCfg {
	env := world.RedisCfg{Masters: 1 + r.Intn(maxMasters)}
	if r.Chance(1, 4) {
		env.Replicas = 1
	}
	if r.Chance(1, 3) {
		env.FragNum, env.FragDen = 1, 2+r.Intn(4)
	}
	if r.Chance(1, 6) {
		env.BufCap = []int{1, 16, 256, 4096}[r.Intn(4)]
	}
	if r.Chance(1, 4) {
		// compression on: the backend writer runs the filter chain, and APPEND (part of the traffic mix) is answered
		// by a filter instead of a backend - one more party that completes requests while connections fail
		env.Compression = &world.Compression{Enable: true, Threshold: []uint32{1, 4, 64}[r.Intn(3)]}
	}
	return env
}

func (p c02) GenBase(r *simhook.Rand, tier string, idx int) harness.Scenario {
	sc := &RedisScenario{Meta: harness.GenMeta(r, 0)}
	sc.Class = "enum-base"
	sc.Env = genEnv(r, 3)
	sc.Env.BufCap = 0
	keys := keyPool(r, 6, "k")
	sc.Conns = genTraffic(r, 1+r.Intn(2), 6, keys, "c")
	if r.Chance(1, 3) {
		sc.Conns[0].Early = true
	}
	return sc
}

// Expand: one scenario per (step of the base run's active window, fault kind).
func (p c02) Expand(base harness.Scenario, out harness.Outcome, r *simhook.Rand, tier string) []harness.Scenario {
	b := base.(*RedisScenario)
	active := out.Res.Probes["active-steps"]
	if active <= 0 {
		return nil
	}
	stride := 1
	maxPoints := 120
	if tier == "thorough" {
		maxPoints = 400
	}
	if active > maxPoints {
		stride = (active + maxPoints - 1) / maxPoints
	}
	var outs []harness.Scenario
	off := r.Intn(stride)
	for s := off; s <= active+2; s += stride {
		kind := c02Kinds[r.Intn(len(c02Kinds))]
		cp := *b
		cp.Class = "enum"
		cp.Faults = []Fault{{Kind: kind, Node: r.Intn(b.Env.Masters), AfterSend: s}}
		outs = append(outs, &cp)
	}
	return outs
}

func (p c02) Gen(r *simhook.Rand, tier string, idx int) harness.Scenario {
	sc := &RedisScenario{Meta: harness.GenMeta(r, 0)}
	sc.Class = "random"
	sc.Env = genEnv(r, 3)
	keys := keyPool(r, 8, "k")
	sc.Conns = genTraffic(r, 1+r.Intn(3), 16, keys, "c")
	for i := range sc.Conns {
		if r.Chance(1, 4) {
			sc.Conns[i].Early = true
		}
		if r.Chance(1, 8) {
			sc.Conns[i].SlowRead = 1
		}
	}
	if r.Chance(1, 14) {
		// class "ask-target-reset": a slot is half migrated (slow migration); a pipeline of reads of keys that do not
		// exist is answered ASK by the source, so the proxy sends ASKING + request pairs to the target - whose connection
		// is reset again and again meanwhile. Every request of every pair is answered exactly once.
		sc.Class = "ask-target-reset"
		sc.Env = world.RedisCfg{Masters: 2}
		sc.SlackMs = []int{0, 1}[r.Intn(2)]
		sc.MigStepMs = 7000
		tag := fmt.Sprintf("at%c", 'a'+rune(r.Intn(26)))
		slot := cluster.Slot([]byte("{" + tag + "}"))
		src := slot / (cluster.NumSlots / 2)
		if src > 1 {
			src = 1
		}
		dst := 1 - src
		for i := 0; i < 6; i++ {
			sc.Env.Preload = append(sc.Env.Preload, world.KV{K: world.Bin(fmt.Sprintf("{%s}:%d", tag, i)), V: world.Bin(uniqueVal("pre", i, 8))})
		}
		sc.Conns = nil
		for ci := 0; ci < 1+r.Intn(3); ci++ {
			cs := ConnScript{Name: fmt.Sprintf("c%d", ci)}
			for i := 0; i < 10+r.Intn(40); i++ {
				cs.Reqs = append(cs.Reqs, world.Request{Args: world.Bins("GET", fmt.Sprintf("{%s}:absent%d-%d", tag, ci, i))})
			}
			cs.Reqs[0].Gap = 20000 // the migration has set importing/migrating by then
			sc.Conns = append(sc.Conns, cs)
		}
		sc.Faults = []Fault{{Kind: "mig-start", From: slot, Dst: dst, OnCmd: "cluster", Nth: 1}}
		for i := 0; i < 2+r.Intn(4); i++ {
			sc.Faults = append(sc.Faults, Fault{Kind: []string{"rst", "fin"}[r.Intn(2)], Node: dst, AfterSend: r.Intn(400)})
		}
		return sc
	}
	if r.Chance(1, 20) {
		// class "wide": one request that fans out into more sub-requests than the 1024-entry queues of a backend
		// connection hold, against healthy backends (the empty fault sequence): it must simply be answered
		sc.Class = "wide"
		n := 1100 + r.Intn(2000)
		a := world.Bins([]string{"MGET", "DEL", "EXISTS"}[r.Intn(3)])
		for i := 0; i < n; i++ {
			a = append(a, world.Bin(fmt.Sprintf("{w}%d", i)))
		}
		sc.Conns = append(sc.Conns, ConnScript{Name: "wide", Reqs: []world.Request{{Args: a}}})
		sc.Faults = nil
		if r.Chance(1, 2) {
			// a backend writer that rarely gets a turn: the queue in front of it is never empty when it looks
			sc.Strategy, sc.StarveRole, sc.Dense, sc.KeepStrategy = "starve", "(*client).Start#go1", false, true
		}
		return sc
	}
	if r.Chance(1, 12) {
		// deep-queue class: a very wide MGET towards a stalled node fills the 1024-slot backend queues
		sc.Class = "deep-queue"
		n := 1100 + r.Intn(1300)
		a := world.Bins("MGET")
		for i := 0; i < n; i++ {
			a = append(a, world.Bin(fmt.Sprintf("{dq}%d", i)))
		}
		sc.Conns = append(sc.Conns, ConnScript{Name: "dq", Reqs: []world.Request{{Args: a}}})
		sc.Faults = append(sc.Faults, Fault{Kind: "silent", Node: 0, AfterSend: 0})
		sc.Faults = append(sc.Faults, Fault{Kind: []string{"rst", "fin", "crash", "host-replace"}[r.Intn(4)], Node: r.Intn(sc.Env.Masters), AfterSend: 200 + r.Intn(3000)})
		sc.Env.Masters = 1
		sc.Env.Replicas = 0
		sc.Faults[1].Node = 0
		return sc
	}
	nf := 1 + r.Intn(3)
	sites := []string{"(*client).Send#", "(*client).loopWrite#select", "(*client).drainRequests#", "(*session).loopWrite#", "(*session).loopRead#select", "(*client).loopRead#"}
	for i := 0; i < nf; i++ {
		f := Fault{Kind: c02Kinds[r.Intn(len(c02Kinds))], Node: r.Intn(sc.Env.Masters)}
		if r.Chance(1, 3) {
			f.Site = sites[r.Intn(len(sites))]
			f.Nth = 1 + r.Intn(6)
		} else {
			f.AfterSend = r.Intn(400)
		}
		sc.Faults = append(sc.Faults, f)
		if f.Kind == "crash" && r.Chance(1, 2) {
			sc.Faults = append(sc.Faults, Fault{Kind: "restart", Node: f.Node, AfterSend: f.AfterSend + 20 + r.Intn(300)})
		}
	}
	return sc
}

func (p c02) Run(t *testing.T, s harness.Scenario) harness.Outcome {
	sc := s.(*RedisScenario)
	w := newRedisWorld(sc)
	w.step = func(w *redisWorld) *simrtViolation { return nil }
	out := runRedis(t, sc, w)
	if w.firstSend >= 0 {
		out.Res.Probes["active-steps"] = int(int64(out.Res.Steps) - w.firstSend)
	}
	return out
}

func (p c02) Shrink(s harness.Scenario) []harness.Scenario { return shrinkRedis(s.(*RedisScenario)) }

package profiles

import (
	"fmt"
	"sort"
	"strings"
	"testing"
	"time"

	"github.com/anishathalye/porcupine"

	"github.com/samaritan-proxy/samaritan/host"
	pbhc "github.com/samaritan-proxy/samaritan/pb/config/hc"
	"github.com/samaritan-proxy/samaritan/proc"

	"verif.local/sim/harness"
	"verif.local/sim/simhook"
	"verif.local/sim/simrt"
)

// C15 — host set and health checking keep a consistent view of usable hosts.
type c15 struct{}

func init() { harness.Register(c15{}) }

// SetOp is one operation of a task on the shared host.Set.
type SetOp struct {
	Op     string `json:"op"` // add remove replace healthy unhealthy | r-healthy r-random r-exist r-len r-all
	Addr   int    `json:"addr,omitempty"`
	Backup bool   `json:"backup,omitempty"`
	List   []int  `json:"list,omitempty"`  // replace: addresses
	BList  []bool `json:"blist,omitempty"` // replace: backup flags
}

type C15Scenario struct {
	harness.Meta
	Kind  string    `json:"kind"` // set | monitor
	Init  []SetOp   `json:"init,omitempty"`
	Tasks [][]SetOp `json:"tasks,omitempty"`
	// monitor
	Hosts    int      `json:"hosts,omitempty"`
	Fall     int      `json:"fall,omitempty"`
	Rise     int      `json:"rise,omitempty"`
	Outcomes []string `json:"outcomes,omitempty"` // per host: string of S/F, one per check round (cyclic)
	Rounds   int      `json:"rounds,omitempty"`
	Churn    []Churn  `json:"churn,omitempty"`  // membership changes while checks run
	Reconf   []Reconf `json:"reconf,omitempty"` // threshold-only configuration updates while checks run
}

// Reconf: after the given round, at a point where no check is in flight, the health-check configuration is
// replaced by one that differs in the thresholds only (same checker, interval and timeout).
type Reconf struct {
	AfterRound int `json:"after_round"`
	Fall       int `json:"fall"`
	Rise       int `json:"rise"`
}

type Churn struct {
	AfterRound int  `json:"after_round"`
	Host       int  `json:"host"`
	Remove     bool `json:"remove"`
}

func (c15) ID() string              { return "C15" }
func (c15) Empty() harness.Scenario { return &C15Scenario{} }
func (c15) NontrivialRule() string {
	return "set runs are non-trivial with >= 2 concurrent mutating tasks whose operations overlap in time; monitor runs when at least one host's outcome sequence contains both results; distinct = distinct (scenario, execution-hash) pairs"
}
func (c15) Components() ([]string, []string) {
	return []string{"host.Set (instrumented: every lock, map rebuild and atomic cache store is a scheduling point)", "host.Stats counters", "internal/hc.Monitor (loop, checkHosts fan-out, thresholds; via verif constructor)"},
		[]string{"scripted health checker", "reference host-set model + porcupine", "reference hysteresis automaton"}
}

func addrOf(i int) string { return fmt.Sprintf("10.2.0.%d:80", i+1) }

func genSetOp(r *simhook.Rand, naddr int, reader bool) SetOp {
	if reader {
		return SetOp{Op: []string{"r-healthy", "r-healthy", "r-random", "r-exist", "r-len", "r-all"}[r.Intn(6)], Addr: r.Intn(naddr)}
	}
	switch r.Intn(10) {
	case 0, 1, 2:
		return SetOp{Op: "add", Addr: r.Intn(naddr), Backup: r.Chance(1, 3)}
	case 3, 4:
		op := SetOp{Op: "remove", Addr: r.Intn(naddr)}
		if r.Chance(1, 3) {
			// one removal call that lists more than one endpoint: the same one twice, another one, or one that was
			// never a member (an endpoint update hands on whatever the discovery service listed)
			op.List = []int{[]int{op.Addr, r.Intn(naddr), naddr + 1}[r.Intn(3)]}
		}
		return op
	case 5:
		op := SetOp{Op: "replace"}
		for i := 0; i < naddr; i++ {
			if r.Chance(1, 2) {
				op.List = append(op.List, i)
				op.BList = append(op.BList, r.Chance(1, 3))
			}
		}
		return op
	case 6, 7:
		return SetOp{Op: "unhealthy", Addr: r.Intn(naddr)}
	default:
		return SetOp{Op: "healthy", Addr: r.Intn(naddr)}
	}
}

func (p c15) Gen(r *simhook.Rand, tier string, idx int) harness.Scenario {
	sc := &C15Scenario{Meta: harness.GenMeta(r, 0)}
	if r.Chance(1, 3) {
		sc.Kind = "monitor"
		sc.Class = "monitor"
		sc.Hosts = 1 + r.Intn(4)
		sc.Fall = 1 + r.Intn(5)
		sc.Rise = 1 + r.Intn(5)
		sc.Rounds = 5 + r.Intn(40)
		for h := 0; h < sc.Hosts; h++ {
			var sb strings.Builder
			n := 4 + r.Intn(30)
			switch r.Intn(4) {
			case 0: // adversarial alternation around the thresholds
				for sb.Len() < n {
					k := sc.Fall - 1 + r.Intn(3)
					sb.WriteString(strings.Repeat("F", k))
					sb.WriteString(strings.Repeat("S", 1+r.Intn(2)))
				}
			case 1:
				for sb.Len() < n {
					k := sc.Rise - 1 + r.Intn(3)
					sb.WriteString(strings.Repeat("F", sc.Fall+2))
					sb.WriteString(strings.Repeat("S", k))
					sb.WriteString("F")
				}
			case 2:
				sb.WriteString(strings.Repeat("FS", n/2+1))
			default:
				for i := 0; i < n; i++ {
					sb.WriteByte("SF"[r.Intn(2)])
				}
			}
			sc.Outcomes = append(sc.Outcomes, sb.String())
		}
		for i := 0; i < r.Intn(3); i++ {
			sc.Churn = append(sc.Churn, Churn{AfterRound: r.Intn(sc.Rounds), Host: r.Intn(sc.Hosts), Remove: r.Chance(1, 2)})
		}
		if r.Chance(1, 3) {
			sc.Class = "monitor+reconf"
			at := 0
			for i := 0; i < 1+r.Intn(2); i++ {
				at += 1 + r.Intn(sc.Rounds/2+1)
				sc.Reconf = append(sc.Reconf, Reconf{AfterRound: at, Fall: 1 + r.Intn(5), Rise: 1 + r.Intn(5)})
			}
		}
		return sc
	}
	sc.Kind = "set"
	sc.Class = "set"
	naddr := 1 + r.Intn(4)
	for i := 0; i < naddr; i++ {
		if r.Chance(2, 3) {
			sc.Init = append(sc.Init, SetOp{Op: "add", Addr: i, Backup: r.Chance(1, 3)})
		}
	}
	nt := 2 + r.Intn(3)
	for t := 0; t < nt; t++ {
		var ops []SetOp
		for k := 0; k < 1+r.Intn(5); k++ {
			ops = append(ops, genSetOp(r, naddr, false))
		}
		sc.Tasks = append(sc.Tasks, ops)
	}
	for t := 0; t < 1+r.Intn(2); t++ {
		var ops []SetOp
		for k := 0; k < 1+r.Intn(4); k++ {
			ops = append(ops, genSetOp(r, naddr, true))
		}
		sc.Tasks = append(sc.Tasks, ops)
	}
	return sc
}

// ---- reference model of the host set ----

type mHost struct {
	id      int
	backup  bool
	healthy bool
}

type setModel map[string]mHost // addr -> stored object

func (m setModel) clone() setModel {
	c := setModel{}
	for k, v := range m {
		c[k] = v
	}
	return c
}

func (m setModel) usable() []string {
	var main, backup []string
	for a, h := range m {
		if !h.healthy {
			continue
		}
		if h.backup {
			backup = append(backup, a)
		} else {
			main = append(main, a)
		}
	}
	out := main
	if len(main) == 0 {
		out = backup
	}
	sort.Strings(out)
	return out
}

func (m setModel) fp() string {
	var ks []string
	for a, h := range m {
		ks = append(ks, fmt.Sprintf("%s:%d:%v:%v", a, h.id, h.backup, h.healthy))
	}
	sort.Strings(ks)
	return strings.Join(ks, ",")
}

type setIn struct {
	op     string
	addr   string
	id     int // object id (add: the new object; healthy/unhealthy: the object the caller holds)
	backup bool
	list   []mHostAt
}

type mHostAt struct {
	addr string
	h    mHost
}

type setOut struct {
	list []string
	addr string
	n    int
	ok   bool
}

func setModelStep(state, input, output interface{}) (bool, interface{}) {
	m := state.(setModel)
	in := input.(setIn)
	out := output.(setOut)
	switch in.op {
	case "add":
		n := m.clone()
		if old, ok := n[in.addr]; ok && old.backup == in.backup {
			return true, n // already a member with this type: the stored object (and its health) stays
		}
		n[in.addr] = mHost{id: in.id, backup: in.backup, healthy: true}
		return true, n
	case "remove":
		n := m.clone()
		delete(n, in.addr)
		for _, x := range in.list {
			delete(n, x.addr)
		}
		return true, n
	case "replace":
		n := setModel{}
		for _, x := range in.list {
			n[x.addr] = x.h
		}
		return true, n
	case "healthy", "unhealthy":
		// the call reports whether it was the one that flipped the flag; a call that found the flag already in
		// that state (an earlier or a still running call flipped it) changes nothing by itself
		n := m.clone()
		if h, ok := n[in.addr]; ok && h.id == in.id && out.ok {
			h.healthy = in.op == "healthy"
			n[in.addr] = h
		}
		return true, n
	case "lookup": // All() as the monitor uses it: which object is stored for addr (0: none)
		h, ok := m[in.addr]
		if !ok {
			return out.n == 0, m
		}
		return out.n == h.id, m
	case "r-healthy":
		return strings.Join(m.usable(), ",") == strings.Join(out.list, ","), m
	case "r-random":
		if out.addr == "" {
			return true, m
		}
		for _, a := range m.usable() {
			if a == out.addr {
				return true, m
			}
		}
		return false, m
	case "r-exist":
		_, ok := m[in.addr]
		return ok == out.ok, m
	case "r-len":
		return len(m) == out.n, m
	case "r-all":
		var ks []string
		for a := range m {
			ks = append(ks, a)
		}
		sort.Strings(ks)
		return strings.Join(ks, ",") == strings.Join(out.list, ","), m
	}
	return false, m
}

func (p c15) Run(t *testing.T, s harness.Scenario) harness.Outcome {
	sc := s.(*C15Scenario)
	if sc.Kind == "monitor" {
		return p.runMonitor(t, sc)
	}
	return p.runSet(t, sc)
}

func (p c15) runSet(t *testing.T, sc *C15Scenario) harness.Outcome {
	var ops []porcupine.Operation
	ids := map[*host.Host]int{}
	nextID := 0
	newHost := func(addr int, backup bool) (*host.Host, int) {
		ty := host.TypeMain
		if backup {
			ty = host.TypeBackup
		}
		h := host.NewWithType(addrOf(addr), ty)
		nextID++
		ids[h] = nextID
		return h, nextID
	}
	var set *host.Set
	init := setModel{}
	overlap := false
	running := 0
	w := &taskWorld{}
	w.setup = func(w *taskWorld) {
		var hs []*host.Host
		for _, op := range sc.Init {
			h, id := newHost(op.Addr, op.Backup)
			hs = append(hs, h)
			init[h.Addr] = mHost{id: id, backup: op.Backup, healthy: true}
		}
		set = host.NewSet(hs...)
		record := func(ci int, in setIn, call int64, out setOut) {
			ops = append(ops, porcupine.Operation{ClientId: ci, Input: in, Call: call, Output: out, Return: w.rt.Step})
		}
		for ti, script := range sc.Tasks {
			ti, script := ti, script
			w.Go(fmt.Sprintf("harness:set-task%d", ti), func() {
				running++
				if running >= 2 {
					overlap = true
				}
				defer func() { running-- }()
				for _, op := range script {
					call := w.rt.Step
					a := addrOf(op.Addr)
					switch op.Op {
					case "add":
						h, id := newHost(op.Addr, op.Backup)
						set.Add(h)
						record(ti, setIn{op: "add", addr: a, id: id, backup: op.Backup}, call, setOut{})
					case "remove":
						// the way the controller does it: a fresh object built from the endpoint address
						h, _ := newHost(op.Addr, op.Backup)
						hs := []*host.Host{h}
						var extra []mHostAt
						for _, x := range op.List {
							xh, _ := newHost(x, op.Backup)
							hs = append(hs, xh)
							extra = append(extra, mHostAt{addr: addrOf(x)})
						}
						set.Remove(hs...)
						record(ti, setIn{op: "remove", addr: a, list: extra}, call, setOut{})
					case "replace":
						var hs []*host.Host
						var list []mHostAt
						seen := map[int]bool{}
						for i, ad := range op.List {
							if seen[ad] {
								continue
							}
							seen[ad] = true
							h, id := newHost(ad, op.BList[i])
							hs = append(hs, h)
							list = append(list, mHostAt{h.Addr, mHost{id: id, backup: op.BList[i], healthy: true}})
						}
						set.ReplaceAll(hs)
						record(ti, setIn{op: "replace", list: list}, call, setOut{})
					case "healthy", "unhealthy":
						// like the health monitor: take the stored object from All(), then mark it
						var obj *host.Host
						for _, h := range set.All() {
							if h.Addr == a {
								obj = h
							}
						}
						id := 0
						if obj != nil {
							id = ids[obj]
						}
						record(ti, setIn{op: "lookup", addr: a}, call, setOut{n: id})
						if obj == nil {
							continue
						}
						call2 := w.rt.Step
						var flipped bool
						if op.Op == "healthy" {
							flipped = set.MarkHostHealthy(obj)
						} else {
							flipped = set.MarkHostUnhealthy(obj)
						}
						record(ti, setIn{op: op.Op, addr: a, id: id}, call2, setOut{ok: flipped})
					case "r-healthy":
						var l []string
						for _, h := range set.Healthy() {
							l = append(l, h.Addr)
						}
						record(ti, setIn{op: "r-healthy"}, call, setOut{list: l})
					case "r-random":
						o := setOut{}
						if h := set.Random(); h != nil {
							o.addr = h.Addr
						}
						record(ti, setIn{op: "r-random"}, call, o)
					case "r-exist":
						record(ti, setIn{op: "r-exist", addr: a}, call, setOut{ok: set.Exist(a)})
					case "r-len":
						record(ti, setIn{op: "r-len"}, call, setOut{n: set.Len()})
					case "r-all":
						var l []string
						for _, h := range set.All() {
							l = append(l, h.Addr)
						}
						sort.Strings(l)
						record(ti, setIn{op: "r-all"}, call, setOut{list: l})
					}
				}
			})
		}
	}
	inconclusive := false
	var post func() *simrt.Violation
	w.final = func(w *taskWorld) *simrt.Violation {
		if !w.allDead() {
			return &simrt.Violation{Clause: "set-operations-return", Detail: fmt.Sprintf("operations on the host set have not returned: %v", w.blocked()), Sites: w.blocked()}
		}
		// quiescent view: one more read of everything
		end := w.rt.Step + 1
		var l []string
		dup := map[string]bool{}
		for _, h := range set.Healthy() {
			if dup[h.Addr] {
				return &simrt.Violation{Clause: "usable-no-duplicates", Detail: fmt.Sprintf("Healthy() lists %s twice", h.Addr)}
			}
			dup[h.Addr] = true
			l = append(l, h.Addr)
		}
		if !sort.StringsAreSorted(l) {
			return &simrt.Violation{Clause: "usable-sorted", Detail: fmt.Sprintf("Healthy() = %v is not sorted by address", l)}
		}
		ops = append(ops, porcupine.Operation{ClientId: len(sc.Tasks), Input: setIn{op: "r-healthy"}, Call: end, Output: setOut{list: l}, Return: end + 1})
		var al []string
		for _, h := range set.All() {
			al = append(al, h.Addr)
		}
		sort.Strings(al)
		ops = append(ops, porcupine.Operation{ClientId: len(sc.Tasks), Input: setIn{op: "r-all"}, Call: end + 2, Output: setOut{list: al}, Return: end + 3})
		model := porcupine.Model{
			Init:  func() interface{} { return init.clone() },
			Step:  setModelStep,
			Equal: func(a, b interface{}) bool { return a.(setModel).fp() == b.(setModel).fp() },
		}
		post = func() *simrt.Violation {
			switch porcupine.CheckOperationsTimeout(model, ops, linTimeout) {
			case porcupine.Illegal:
				var hist []string
				sort.Slice(ops, func(i, j int) bool { return ops[i].Call < ops[j].Call })
				for _, o := range ops {
					in := o.Input.(setIn)
					out := o.Output.(setOut)
					d := in.op + " " + in.addr
					if in.op == "replace" {
						d = fmt.Sprintf("replace %v", in.list)
					}
					if in.op == "add" {
						d += fmt.Sprintf(" backup=%v obj#%d", in.backup, in.id)
					}
					if in.op == "healthy" || in.op == "unhealthy" {
						d += fmt.Sprintf(" obj#%d", in.id)
					}
					hist = append(hist, fmt.Sprintf("t%d [%d,%d] %s -> %v%s%d/%v", o.ClientId, o.Call, o.Return, d, out.list, out.addr, out.n, out.ok))
				}
				return &simrt.Violation{Clause: "usable-view-matches-model", Detail: "no order of the operations explains what the readers and the final quiescent view (last two entries) observed; usable = healthy members of the preferred tier, sorted: " + strings.Join(hist, "; ")}
			case porcupine.Unknown:
				inconclusive = true
			}
			return nil
		}
		return nil
	}
	res := simrt.Run(t, w, sc.Options())
	if res.Violation == nil && post != nil {
		// the linearizability check runs after the bubble has ended, where its timeout is real time
		progressTick()
		res.Violation = post()
	}
	return harness.Outcome{Res: res, Faults: map[string]int{}, Nontrivial: overlap, Inconclusive: inconclusive}
}

func (p c15) runMonitor(t *testing.T, sc *C15Scenario) harness.Outcome {
	type obs struct {
		result bool
		obj    *host.Host
	}
	var set *host.Set
	var mon proc.VerifMonitor
	results := map[*host.Host][]bool{} // per host object: check results in order
	lastFlipAt := map[*host.Host]int{} // index into results after which the last flip was observed
	state := map[*host.Host]bool{}
	round := map[string]int{} // per address: number of checks so far
	var bad *simrt.Violation
	mixed := false
	for _, o := range sc.Outcomes {
		if strings.Contains(o, "S") && strings.Contains(o, "F") {
			mixed = true
		}
	}
	w := &taskWorld{}
	stopped := false
	rounds := 0
	objs := map[string]*host.Host{}
	// thresholds in force. cfgs[0] is the initial configuration; a later entry is in doubt for results obtained
	// between the invocation of its update (inv) and the update's return (ret < 0 while pending).
	type cfgAt struct{ fall, rise, inv, ret int }
	cfgs := []cfgAt{{sc.Fall, sc.Rise, 0, 0}}
	nres := 0                        // check results so far, all hosts
	resSeq := map[*host.Host][]int{} // per host object: nres when each result was obtained
	// thresholds that may have applied when the result with sequence number s was evaluated
	thresholds := func(s int, fall bool) (lo, hi int) {
		lo, hi = 1<<30, 0
		add := func(c cfgAt) {
			v := c.rise
			if fall {
				v = c.fall
			}
			if v < lo {
				lo = v
			}
			if v > hi {
				hi = v
			}
		}
		last := 0
		for i, c := range cfgs {
			if c.ret >= 0 && c.ret <= s {
				last = i
			}
		}
		add(cfgs[last])
		for _, c := range cfgs[last+1:] {
			if c.inv <= s {
				add(c)
			}
		}
		return
	}
	needFor := func(h *host.Host, fall, strict bool) int {
		sq := resSeq[h]
		if len(sq) == 0 {
			if fall {
				return sc.Fall
			}
			return sc.Rise
		}
		lo, hi := thresholds(sq[len(sq)-1], fall)
		if strict {
			return hi
		}
		return lo
	}
	reconfDone := make([]bool, len(sc.Reconf))
	var reconfTask *simhook.Task
	w.setup = func(w *taskWorld) {
		var hs []*host.Host
		for i := 0; i < sc.Hosts; i++ {
			h := host.New(addrOf(i))
			hs = append(hs, h)
			objs[h.Addr] = h
			state[h] = true
		}
		set = host.NewSet(hs...)
		cfg := &pbhc.HealthCheck{Interval: time.Second, Timeout: 100 * time.Millisecond, FallThreshold: uint32(sc.Fall), RiseThreshold: uint32(sc.Rise), Checker: &pbhc.HealthCheck_TcpChecker{TcpChecker: &pbhc.TCPChecker{}}}
		mon = proc.VerifNewMonitor(cfg, set, func(addr string, timeout time.Duration) error {
			simhook.Yield("harness.check")
			var idx int
			fmt.Sscanf(addr, "10.2.0.%d:80", &idx)
			idx--
			seq := sc.Outcomes[idx%len(sc.Outcomes)]
			k := round[addr]
			round[addr]++
			ok := seq[k%len(seq)] == 'S'
			// the result belongs to the object currently stored under addr when the check was started by the monitor;
			// the monitor passes the address only, so attribute to the stored object (objs is kept in step with the set)
			if h := objs[addr]; h != nil {
				results[h] = append(results[h], ok)
				resSeq[h] = append(resSeq[h], nres)
			}
			nres++
			if ok {
				return nil
			}
			return fmt.Errorf("scripted failure")
		})
		w.Go("harness:monitor-start", func() { mon.Start() })
	}
	w.done = func(w *taskWorld) bool { return stopped && w.allDead() }
	churnDone := make([]bool, len(sc.Churn))
	w.check = func(w *taskWorld) *simrt.Violation {
		if bad != nil {
			return bad
		}
		// observe health flags at every quiescent point and compare with the hysteresis automaton
		for addr, h := range objs {
			cur := h.IsHealthy()
			if cur == state[h] {
				continue
			}
			rs := results[h]
			need := needFor(h, true, false)
			want := false // results that justify the flip
			if cur {
				need = needFor(h, false, false)
				want = true
			}
			n := 0
			for i := len(rs) - 1; i >= lastFlipAt[h] && rs[i] == want; i-- {
				n++
			}
			// also count consecutive results before the previous flip boundary? no: a flip resets the counters
			if n < need {
				return &simrt.Violation{Clause: "flip-needs-consecutive-results", Detail: fmt.Sprintf("host %s flipped to healthy=%v after only %d consecutive %s results (threshold %d); results so far (S=success): %s", addr, cur, n, map[bool]string{true: "successful", false: "failed"}[want], need, fmtResults(rs))}
			}
			state[h] = cur
			lastFlipAt[h] = len(rs)
		}
		// the set's usable view follows the flags at quiescence (all members are main hosts here)
		if len(w.rt.Parked()) == 0 {
			var want []string
			for addr, h := range objs {
				if h.IsHealthy() && set.Exist(addr) {
					want = append(want, addr)
				}
			}
			sort.Strings(want)
			var got []string
			for _, h := range set.Healthy() {
				got = append(got, h.Addr)
			}
			if strings.Join(want, ",") != strings.Join(got, ",") {
				return &simrt.Violation{Clause: "usable-follows-health-flags", Detail: fmt.Sprintf("at a quiescent point Healthy() = %v, the members marked healthy are %v", got, want)}
			}
			// a flip must have happened once far more than enough consecutive contrary results were seen
			for addr, h := range objs {
				rs := results[h]
				need := needFor(h, true, true)
				if !h.IsHealthy() {
					need = needFor(h, false, true)
				}
				n := 0
				for i := len(rs) - 1; i >= lastFlipAt[h] && rs[i] != h.IsHealthy(); i-- {
					n++
				}
				if n >= 2*need+2 && set.Exist(addr) {
					return &simrt.Violation{Clause: "flip-happens-eventually", Detail: fmt.Sprintf("host %s is still healthy=%v after %d consecutive contrary results (threshold %d): %s", addr, h.IsHealthy(), n, need, fmtResults(rs))}
				}
			}
		}
		// rounds elapsed = max checks of any address
		rounds = 0
		for _, k := range round {
			if k > rounds {
				rounds = k
			}
		}
		for i, c := range sc.Churn {
			if !churnDone[i] && rounds >= c.AfterRound {
				churnDone[i] = true
				addr := addrOf(c.Host)
				if c.Remove {
					delete(objs, addr)
					w.Go("harness:churn-remove", func() { set.Remove(host.New(addr)) })
				} else {
					h := host.New(addr)
					if old := objs[addr]; old != nil {
						// re-adding an identical endpoint keeps the stored object
						continue
					}
					objs[addr] = h
					state[h] = true
					w.Go("harness:churn-add", func() { set.Add(h) })
				}
			}
		}
		if reconfTask != nil && reconfTask.State == simhook.StDead {
			reconfTask = nil
			cfgs[len(cfgs)-1].ret = nres
		}
		for i, rc := range sc.Reconf {
			if reconfDone[i] || rounds < rc.AfterRound || reconfTask != nil || stopped || len(w.rt.Parked()) != 0 {
				continue
			}
			// no task is at a scheduling point: every result so far has been evaluated under the thresholds in force
			reconfDone[i] = true
			cfg := &pbhc.HealthCheck{Interval: time.Second, Timeout: 100 * time.Millisecond, FallThreshold: uint32(rc.Fall), RiseThreshold: uint32(rc.Rise), Checker: &pbhc.HealthCheck_TcpChecker{TcpChecker: &pbhc.TCPChecker{}}}
			cfgs = append(cfgs, cfgAt{rc.Fall, rc.Rise, nres, -1})
			m := mon.(interface {
				ResetHealthCheck(*pbhc.HealthCheck) error
			})
			reconfTask = w.Go("harness:monitor-reconf", func() {
				if err := m.ResetHealthCheck(cfg); err != nil {
					bad = &simrt.Violation{Clause: "harness-build", Detail: "ResetHealthCheck: " + err.Error()}
				}
			})
			break
		}
		if rounds >= sc.Rounds && !stopped && reconfTask == nil {
			stopped = true
			w.Go("harness:monitor-stop", func() { mon.Stop() })
		}
		return nil
	}
	w.final = func(w *taskWorld) *simrt.Violation {
		if bad != nil {
			return bad
		}
		if !w.allDead() {
			return &simrt.Violation{Clause: "monitor-stops", Detail: fmt.Sprintf("monitor start/stop have not returned: %v", w.blocked()), Sites: w.blocked()}
		}
		return nil
	}
	w.horizon = 20 * time.Minute
	res := simrt.Run(t, w, sc.Options())
	return harness.Outcome{Res: res, Faults: map[string]int{}, Nontrivial: mixed}
}

func fmtResults(rs []bool) string {
	var sb strings.Builder
	for _, r := range rs {
		if r {
			sb.WriteByte('S')
		} else {
			sb.WriteByte('F')
		}
	}
	return sb.String()
}

func (p c15) Shrink(s harness.Scenario) []harness.Scenario {
	sc := s.(*C15Scenario)
	var out []harness.Scenario
	cp := func() *C15Scenario {
		c := *sc
		c.Tasks = nil
		for _, t := range sc.Tasks {
			c.Tasks = append(c.Tasks, append([]SetOp(nil), t...))
		}
		c.Init = append([]SetOp(nil), sc.Init...)
		c.Outcomes = append([]string(nil), sc.Outcomes...)
		c.Churn = append([]Churn(nil), sc.Churn...)
		c.Reconf = append([]Reconf(nil), sc.Reconf...)
		return &c
	}
	if sc.Kind == "set" {
		for i := range sc.Tasks {
			if len(sc.Tasks) > 1 {
				c := cp()
				c.Tasks = append(c.Tasks[:i:i], c.Tasks[i+1:]...)
				out = append(out, c)
			}
			for k := range sc.Tasks[i] {
				if len(sc.Tasks[i]) > 1 {
					c := cp()
					c.Tasks[i] = append(c.Tasks[i][:k:k], c.Tasks[i][k+1:]...)
					out = append(out, c)
				}
			}
		}
		for i := range sc.Init {
			c := cp()
			c.Init = append(c.Init[:i:i], c.Init[i+1:]...)
			out = append(out, c)
		}
	} else {
		if sc.Rounds > 3 {
			c := cp()
			c.Rounds = sc.Rounds / 2
			out = append(out, c)
		}
		if sc.Hosts > 1 {
			c := cp()
			c.Hosts--
			c.Outcomes = c.Outcomes[:c.Hosts]
			var ch []Churn
			for _, x := range c.Churn {
				if x.Host < c.Hosts {
					ch = append(ch, x)
				}
			}
			c.Churn = ch
			out = append(out, c)
		}
		for i := range sc.Churn {
			c := cp()
			c.Churn = append(c.Churn[:i:i], c.Churn[i+1:]...)
			out = append(out, c)
		}
		for i := range sc.Reconf {
			c := cp()
			c.Reconf = append(c.Reconf[:i:i], c.Reconf[i+1:]...)
			out = append(out, c)
		}
		for i, o := range sc.Outcomes {
			if len(o) > 2 {
				c := cp()
				c.Outcomes[i] = o[:len(o)/2]
				out = append(out, c)
			}
		}
	}
	if sc.Strategy != "uniform" {
		c := cp()
		c.Strategy = "uniform"
		out = append(out, c)
	}
	return out
}

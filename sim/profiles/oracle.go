package profiles

import (
	"bytes"
	"strings"

	"verif.local/sim/refredis"
	"verif.local/sim/resp2"
	"verif.local/sim/world"
)

// The oracle's model of what the proxy owes a client for one request.  It is written from the
// documentation (docs/src/arch/protocol/redis/redis.md) and the property statements, not from
// the proxy's command tables.

type expKind int

const (
	expExact expKind = iota // reply bytes equal Val
	expError                // exactly one error frame (wording is not part of any property)
	expBulk                 // one bulk string (INFO, HOTKEY)
	expTime                 // array of two bulk strings
	expSkip                 // not judged
)

type Expect struct {
	Kind     expKind
	Val      resp2.Value
	Children int // sub-commands that must reach backends
}

// docUnsupported: the documentation's "Unsupported" list minus SCAN (which is implemented).
var docUnsupported = map[string]bool{}

// redisCommands: the Redis 5 command table (names only); anything else is not a Redis command.
var redisCommands = map[string]bool{}

// redisWrite: commands flagged "write" in Redis 5's command table.
var redisWrite = map[string]bool{}

func init() {
	for _, c := range strings.Fields(`keys migrate move object randomkey rename renamenx wait bitop msetnx blpop brpop brpoplpush
		psubscribe publish pubsub punsubscribe subscribe unsubscribe evalsha script discard exec multi unwatch watch cluster echo
		bgrewriteaof bgsave client command config dbsize debug flushall flushdb lastsave monitor role save shutdown slaveof sync slowlog`) {
		docUnsupported[c] = true
	}
	for _, c := range strings.Fields(`append asking auth bgrewriteaof bgsave bitcount bitfield bitop bitpos blpop brpop brpoplpush bzpopmax bzpopmin
		client cluster command config dbsize debug decr decrby del discard dump echo eval evalsha exec exists expire expireat flushall flushdb
		geoadd geodist geohash geopos georadius georadius_ro georadiusbymember georadiusbymember_ro get getbit getrange getset hdel hexists hget hgetall
		hincrby hincrbyfloat hkeys hlen hmget hmset host: hscan hset hsetnx hstrlen hvals incr incrby incrbyfloat info keys lastsave latency
		lindex linsert llen lolwut lpop lpush lpushx lrange lrem lset ltrim memory mget migrate module monitor move mset msetnx multi object
		persist pexpire pexpireat pfadd pfcount pfdebug pfmerge pfselftest ping post psetex psubscribe psync pttl publish pubsub punsubscribe
		randomkey readonly readwrite rename renamenx replconf replicaof restore restore-asking role rpop rpoplpush rpush rpushx sadd save scan scard
		script sdiff sdiffstore select set setbit setex setnx setrange shutdown sinter sinterstore sismember slaveof slowlog smembers smove sort
		spop srandmember srem sscan strlen subscribe substr sunion sunionstore swapdb sync time touch ttl type unlink unsubscribe unwatch wait
		watch xack xadd xclaim xdel xgroup xinfo xlen xpending xrange xread xreadgroup xrevrange xsetid xtrim zadd zcard zcount zincrby zinterstore
		zlexcount zpopmax zpopmin zrange zrangebylex zrangebyscore zrank zrem zremrangebylex zremrangebyrank zremrangebyscore zrevrange
		zrevrangebylex zrevrangebyscore zrevrank zscan zscore zunionstore`) {
		redisCommands[c] = true
	}
	for _, c := range strings.Fields(`append bitfield bitop blpop brpop brpoplpush bzpopmax bzpopmin decr decrby del expire expireat flushall flushdb
		geoadd georadius georadiusbymember getset hdel hincrby hincrbyfloat hmset hset hsetnx incr incrby incrbyfloat linsert lpop lpush lpushx lrem lset
		ltrim migrate move mset msetnx persist pexpire pexpireat pfadd pfdebug pfmerge psetex rename renamenx restore restore-asking rpop rpoplpush rpush
		rpushx sadd sdiffstore set setbit setex setnx setrange sinterstore smove sort spop srem sunionstore swapdb unlink xack xadd xclaim xdel
		xgroup xreadgroup xsetid xtrim zadd zincrby zinterstore zpopmax zpopmin zrem zremrangebylex zremrangebyrank zremrangebyscore zunionstore`) {
		redisWrite[c] = true
	}
}

// expectRequest computes what a request must be answered with when executed against store (the
// connection-private or global reference), and applies its effect to store.
func expectRequest(store *refredis.Store, r world.Request, model [][]byte) Expect {
	args := model
	if args == nil {
		if len(r.Raw) > 0 {
			return Expect{Kind: expError}
		}
		args = world.BinsToBytes(r.Args)
	}
	if len(args) == 0 {
		return Expect{Kind: expError}
	}
	name := strings.ToLower(string(args[0]))
	switch name {
	case "ping":
		if len(args) == 1 {
			return Expect{Kind: expExact, Val: resp2.S("PONG")}
		}
		return Expect{Kind: expSkip}
	case "select":
		if len(args) == 2 && string(args[1]) != "0" {
			return Expect{Kind: expSkip} // only database 0 exists behind the proxy: any single reply will do
		}
		return Expect{Kind: expExact, Val: resp2.S("OK")}
	case "quit":
		return Expect{Kind: expExact, Val: resp2.S("OK")}
	case "info", "hotkey":
		return Expect{Kind: expBulk}
	case "time":
		return Expect{Kind: expTime}
	case "scan":
		return Expect{Kind: expSkip}
	case "mget":
		if len(args) < 2 {
			return Expect{Kind: expError}
		}
		return Expect{Kind: expExact, Val: store.Exec(args), Children: len(args) - 1}
	case "mset":
		if len(args) < 3 || len(args)%2 != 1 {
			return Expect{Kind: expError}
		}
		return Expect{Kind: expExact, Val: store.Exec(args), Children: (len(args) - 1) / 2}
	case "del", "exists", "touch", "unlink":
		if len(args) < 2 {
			return Expect{Kind: expError}
		}
		return Expect{Kind: expExact, Val: store.Exec(args), Children: len(args) - 1}
	case "eval":
		if len(args) < 4 {
			return Expect{Kind: expError}
		}
		return Expect{Kind: expExact, Val: store.Exec(args), Children: 1}
	}
	if docUnsupported[name] || !redisCommands[name] {
		return Expect{Kind: expError}
	}
	if len(args) < 2 {
		return Expect{Kind: expError}
	}
	v := store.Exec(args)
	if v.IsErr() {
		return Expect{Kind: expError, Children: 1}
	}
	return Expect{Kind: expExact, Val: v, Children: 1}
}

func (e Expect) Matches(got resp2.Value) bool {
	switch e.Kind {
	case expExact:
		if e.Val.IsErr() {
			return got.IsErr()
		}
		return bytes.Equal(e.Val.Bytes(), got.Bytes())
	case expError:
		return got.IsErr()
	case expBulk:
		return got.Kind == resp2.Bulk && !got.Null
	case expTime:
		return got.Kind == resp2.Array && len(got.Arr) == 2 && got.Arr[0].Kind == resp2.Bulk && got.Arr[1].Kind == resp2.Bulk
	}
	return true
}

func (e Expect) String() string {
	switch e.Kind {
	case expExact:
		return e.Val.String()
	case expError:
		return "<one error reply>"
	case expBulk:
		return "<one bulk string>"
	case expTime:
		return "<array of two bulk strings>"
	}
	return "<not judged>"
}

package profiles

import (
	"verif.local/sim/harness"
	"verif.local/sim/simrt"
	"verif.local/sim/world"
)

type simrtViolation = simrt.Violation

func cloneRedis(sc *RedisScenario) *RedisScenario {
	cp := *sc
	cp.Conns = make([]ConnScript, len(sc.Conns))
	for i, c := range sc.Conns {
		cp.Conns[i] = c
		cp.Conns[i].Reqs = append([]world.Request(nil), c.Reqs...)
	}
	cp.Faults = append([]Fault(nil), sc.Faults...)
	cp.Env.Preload = append([]world.KV(nil), sc.Env.Preload...)
	cp.Env.Layout = append([]world.SlotRange(nil), sc.Env.Layout...)
	return &cp
}

// shrinkRedis proposes simpler scenarios: fewer connections, requests, faults, nodes, knobs.
func shrinkRedis(sc *RedisScenario) []harness.Scenario {
	var out []harness.Scenario
	add := func(f func(c *RedisScenario) bool) {
		c := cloneRedis(sc)
		if f(c) {
			out = append(out, c)
		}
	}
	// drop a whole connection
	for i := range sc.Conns {
		i := i
		if len(sc.Conns) > 1 {
			add(func(c *RedisScenario) bool { c.Conns = append(c.Conns[:i], c.Conns[i+1:]...); return true })
		}
	}
	// drop a fault
	for i := range sc.Faults {
		i := i
		if len(sc.Faults) > 1 {
			add(func(c *RedisScenario) bool { c.Faults = append(c.Faults[:i], c.Faults[i+1:]...); return true })
		}
	}
	// halve / drop requests
	for i := range sc.Conns {
		i := i
		n := len(sc.Conns[i].Reqs)
		if n > 1 {
			add(func(c *RedisScenario) bool { c.Conns[i].Reqs = c.Conns[i].Reqs[:n/2]; return true })
			add(func(c *RedisScenario) bool { c.Conns[i].Reqs = c.Conns[i].Reqs[n/2:]; return true })
		}
		if n > 1 && n <= 12 {
			for k := 0; k < n; k++ {
				k := k
				add(func(c *RedisScenario) bool {
					c.Conns[i].Reqs = append(c.Conns[i].Reqs[:k:k], c.Conns[i].Reqs[k+1:]...)
					return true
				})
			}
		}
	}
	// simpler requests: drop sender-side cuts, waits, gaps; shorten wide multi-key commands
	for i := range sc.Conns {
		for k := range sc.Conns[i].Reqs {
			i, k := i, k
			rq := sc.Conns[i].Reqs[k]
			if len(rq.Cut) > 0 || rq.Wait || rq.Gap > 0 {
				add(func(c *RedisScenario) bool {
					c.Conns[i].Reqs[k].Cut, c.Conns[i].Reqs[k].Wait, c.Conns[i].Reqs[k].Gap = nil, false, 0
					return true
				})
			}
			if len(rq.Args) > 6 {
				add(func(c *RedisScenario) bool {
					a := c.Conns[i].Reqs[k].Args
					h := 1 + (len(a)-1)/2
					if (h-1)%2 == 1 && len(a)%2 == 1 { // keep MSET pairs even
						h++
					}
					c.Conns[i].Reqs[k].Args = append([]world.Bin(nil), a[:h]...)
					return true
				})
			}
		}
	}
	// knobs
	if sc.Env.FragNum > 0 {
		add(func(c *RedisScenario) bool { c.Env.FragNum = 0; return true })
	}
	if sc.Env.BufCap > 0 {
		add(func(c *RedisScenario) bool { c.Env.BufCap = 0; return true })
	}
	if sc.Env.Replicas > 0 {
		add(func(c *RedisScenario) bool { c.Env.Replicas = 0; return true })
	}
	if sc.Env.Masters > 1 && len(sc.Env.Layout) == 0 {
		add(func(c *RedisScenario) bool {
			c.Env.Masters--
			for i := range c.Faults {
				if c.Faults[i].Node >= c.Env.Masters {
					c.Faults[i].Node = 0
				}
			}
			return true
		})
	}
	for i := range sc.Conns {
		i := i
		if sc.Conns[i].LeaveAfter > 0 {
			add(func(c *RedisScenario) bool { c.Conns[i].LeaveAfter = 0; return true })
		}
		if sc.Conns[i].SlowRead > 0 || sc.Conns[i].Early || sc.Conns[i].MaxOut > 0 {
			add(func(c *RedisScenario) bool {
				c.Conns[i].SlowRead, c.Conns[i].Early, c.Conns[i].MaxOut = 0, false, 0
				return true
			})
		}
	}
	if sc.SlackMs > 0 {
		add(func(c *RedisScenario) bool { c.SlackMs = 0; return true })
	}
	if sc.Strategy != "uniform" {
		add(func(c *RedisScenario) bool { c.Strategy = "uniform"; return true })
	}
	// earlier fault triggers
	for i := range sc.Faults {
		i := i
		if sc.Faults[i].AfterSend > 1 {
			add(func(c *RedisScenario) bool { c.Faults[i].AfterSend /= 2; return true })
		}
		if sc.Faults[i].Nth > 1 {
			add(func(c *RedisScenario) bool { c.Faults[i].Nth--; return true })
		}
	}
	return out
}

package profiles

import (
	"bytes"
	"fmt"
	"sort"
	"strings"
	"testing"

	"verif.local/sim/cluster"
	"verif.local/sim/harness"
	"verif.local/sim/simhook"
	"verif.local/sim/world"
)

// C14 — only supported commands reach backends, and writes only reach masters.
type c14 struct{}

func init() { harness.Register(c14{}) }

func (c14) ID() string              { return "C14" }
func (c14) Empty() harness.Scenario { return &RedisScenario{} }
func (c14) NontrivialRule() string {
	return "every run issues ~45 commands from the Redis 5 command table (enumerated block-wise by run index so that a tier covers the whole table in every letter case under every read strategy) plus random non-commands; a run is non-trivial when the layout has replicas or >= 2 masters; distinct = distinct (scenario, execution-hash) pairs"
}
func (c14) Components() ([]string, []string) {
	return []string{"redis.handler (command tables)", "redis.redis (dispatch, case folding)", "redis.upstream.chooseHost (read strategy, replica choice by clock)", "redis.request"},
		[]string{"network (simnet)", "Redis cluster masters and replicas with READONLY semantics (cluster)", "one sequential client", "Redis 5 command table with write flags (embedded data)"}
}

var localCmds = map[string]bool{"ping": true, "quit": true, "select": true, "info": true, "time": true, "hotkey": true}

func allCommandNames() []string {
	var ns []string
	for n := range redisCommands {
		if n == "host:" || n == "post" {
			continue
		}
		ns = append(ns, n)
	}
	sort.Strings(ns)
	return ns
}

func recase(r *simhook.Rand, s string, mode int) string {
	switch mode {
	case 0:
		return strings.ToLower(s)
	case 1:
		return strings.ToUpper(s)
	}
	b := []byte(strings.ToLower(s))
	for i := range b {
		if r.Chance(1, 2) {
			b[i] = byte(strings.ToUpper(string(b[i]))[0])
		}
	}
	return string(b)
}

func (p c14) Gen(r *simhook.Rand, tier string, idx int) harness.Scenario {
	sc := &RedisScenario{Meta: harness.GenMeta(r, 0)}
	names := allCommandNames()
	const block = 40
	nblocks := (len(names) + block - 1) / block
	strategy := idx % 3
	mode := (idx / 3) % 3
	blk := (idx / 9) % nblocks
	sc.Env = world.RedisCfg{Masters: 1 + r.Intn(4), Replicas: r.Intn(3), ReadStrategy: strategy}
	if strategy != 0 && sc.Env.Replicas == 0 && r.Chance(2, 3) {
		sc.Env.Replicas = 1 + r.Intn(2)
	}
	sc.Class = []string{"MASTER", "REPLICA", "BOTH"}[strategy]
	cs := ConnScript{Name: "c0"}
	add := func(name string, k int) {
		arity := r.Intn(5)
		a := world.Bins(recase(r, name, mode))
		key := fmt.Sprintf("q%d:{%c%c}", k, 'a'+rune(r.Intn(26)), 'a'+rune(r.Intn(26)))
		if r.Chance(1, 4) {
			// other placements of braces (which part of the key is hashed decides the owner that must receive the command)
			t := fmt.Sprintf("%c%c", 'a'+rune(r.Intn(26)), 'a'+rune(r.Intn(26)))
			key = []string{
				fmt.Sprintf("a}q%d{%s}c", k, t), fmt.Sprintf("}{q%d%s}", k, t), fmt.Sprintf("q%d{}%s", k, t), fmt.Sprintf("{q%d%s", k, t),
				fmt.Sprintf("q%d}%s{", k, t), fmt.Sprintf("{%s}q%d{zz}", t, k), fmt.Sprintf("q%d{{%s}}", k, t), fmt.Sprintf("q%d%s", k, t),
			}[r.Intn(8)]
		}
		vals := []string{key, "1", "2", "3"}
		lname := strings.ToLower(name)
		if lname == "sort" && r.Chance(1, 2) {
			vals = []string{key, "STORE", key + ":dst", "ALPHA"}
			arity = 3
		}
		tag := key
		if lname == "eval" || lname == "evalsha" {
			// the script text is unique, so executions are attributable also when no key is given
			tag = fmt.Sprintf("--e%d", k)
			script := "return 1 " + tag
			switch r.Intn(3) {
			case 0:
				vals = []string{script, "1", key, "x"}
			case 1:
				vals = []string{script, "0", "x", "y"}
			default:
				vals = []string{script, "0", "", ""}
				if arity > 2 {
					arity = 2
				}
			}
		}
		for i := 0; i < arity; i++ {
			a = append(a, world.Bin(vals[i]))
		}
		cs.Reqs = append(cs.Reqs, world.Request{Args: a, Wait: true, GapNs: 1 + r.Intn(999), Gap: r.Intn(3), Tag: tag})
	}
	k := 0
	for i := blk * block; i < (blk+1)*block && i < len(names); i++ {
		add(names[i], k)
		k++
	}
	others := []string{"foo", "gett", "se", "mgetx", "hotkeys", "pingg", "", " ", "get ", "déjà", "GET\x00", "xx-yy", "cluster nodes", "readonly2", "asking!"}
	for i := 0; i < 5; i++ {
		add(others[r.Intn(len(others))], k)
		k++
	}
	// names derived from a real command: a suffix, a prefix, a letter doubled or dropped (none is a Redis command
	// unless the table says so, and then it is judged as that command)
	for i := 0; i < 4; i++ {
		base := names[r.Intn(len(names))]
		if r.Chance(1, 3) {
			base = []string{"georadiusbymember", "georadius", "zrevrangebyscore", "get", "set", "hgetall", "pfcount", "bitfield", "sort", "eval"}[r.Intn(10)]
		}
		var d string
		switch r.Intn(5) {
		case 0:
			d = base + []string{"_ro", "x", "2", "s", "_", "nx", "ex"}[r.Intn(7)]
		case 1:
			d = []string{"x", "p", "m", "h", "z", "_"}[r.Intn(6)] + base
		case 2:
			j := r.Intn(len(base))
			d = base[:j] + base[j:j+1] + base[j:]
		case 3:
			if len(base) > 2 {
				j := r.Intn(len(base))
				d = base[:j] + base[j+1:]
			} else {
				d = base + base
			}
		default:
			d = base + base
		}
		add(d, k)
		k++
	}
	// the well known ones in every run, since they matter most
	for _, n := range []string{"get", "set", "geoadd", "sort", "del", "mget", "mset", "zadd", "exists", "ping", "hotkey"} {
		if r.Chance(1, 2) {
			add(n, k)
			k++
		}
	}
	sc.Conns = []ConnScript{cs}
	if sc.Env.Replicas > 0 && sc.Env.Masters > 1 && r.Chance(1, 3) {
		// class "dynamic": a replica migrates to another master while the client works; after the proxy had time
		// to learn the new layout a second block of commands is judged against the new truth
		sc.Class += "+replica-move"
		rep := sc.Env.Masters + r.Intn(sc.Env.Masters*sc.Env.Replicas)
		sc.Faults = []Fault{{Kind: "replica-move", Node: rep, Dst: r.Intn(sc.Env.Masters), AfterSend: r.Intn(200)}}
		sc.IdleFaults = true
		sc.SettleMs = 200000 + r.Intn(400000)
		first := cs.Reqs
		cs = ConnScript{Name: "p0"}
		for _, n := range []string{"get", "get", "get", "strlen", "hgetall", "lrange", "smembers", "zcard", "type", "ttl", "set", "eval", "geoadd", "exists"} {
			for j := 0; j < 3; j++ {
				add(n, k)
				k++
			}
		}
		sc.Conns = []ConnScript{{Name: "c0", Reqs: first}}
		sc.Probes = []ConnScript{cs}
	} else if sc.Env.Masters > 1 && r.Chance(1, 3) {
		// class "slot-move": one slot changes its owner while the client works. The write that hits the moved slot
		// is redirected; every request for a slot whose owner never changes is judged as always - also between the
		// redirection and the next slot refresh
		sc.Class += "+slot-move"
		at := len(cs.Reqs) / 4
		if at < 1 {
			at = 1
		}
		at += r.Intn(at)
		mk := fmt.Sprintf("qm:{%c%c%c}", 'a'+rune(r.Intn(26)), 'a'+rune(r.Intn(26)), 'a'+rune(r.Intn(26)))
		mv := world.Request{Args: world.Bins("set", mk, "1"), Wait: true, Tag: mk}
		reqs := append(append(append([]world.Request(nil), cs.Reqs[:at]...), mv), cs.Reqs[at:]...)
		sc.Conns = []ConnScript{{Name: "c0", Reqs: reqs}}
		slot := cluster.Slot([]byte(mk))
		sc.Faults = []Fault{{Kind: "layout", From: slot, To: slot, Dst: r.Intn(sc.Env.Masters), AfterSend: r.Intn(at)}}
	} else if sc.Env.Masters > 1 && r.Chance(1, 4) {
		// class "open-migration": a slot is slowly migrating from its owner A to B (its keys still on A); minutes into
		// it the client reads keys of that slot that do not exist (A answers ASK, the proxy asks B after ASKING) and,
		// right after each, writes a key that is still on A.  A stays the owner: apart from the command that follows
		// an ASKING, nothing for that slot may be sent to B.
		sc.Class += "+open-migration"
		tag := fmt.Sprintf("{om%c%c}", 'a'+rune(r.Intn(26)), 'a'+rune(r.Intn(26)))
		slot := cluster.Slot([]byte(tag))
		per := cluster.NumSlots / sc.Env.Masters
		a := slot / per
		if a >= sc.Env.Masters {
			a = sc.Env.Masters - 1
		}
		for i := 0; i < 4; i++ {
			sc.Env.Preload = append(sc.Env.Preload, world.KV{K: world.Bin(fmt.Sprintf("omk%d%s", i, tag)), V: world.Bin(fmt.Sprintf("v%d", i))})
		}
		sc.MigStepMs = 60000
		sc.Faults = []Fault{{Kind: "mig-start", From: slot, Dst: (a + 1 + r.Intn(sc.Env.Masters-1)) % sc.Env.Masters, OnCmd: "cluster", Nth: 1}}
		sc.IdleFaults = true
		blk := ConnScript{Name: "om"}
		for i := 0; i < 4; i++ {
			ak := fmt.Sprintf("omabsent%d%s", i, tag)
			pk := fmt.Sprintf("omk%d%s", i, tag)
			g := world.Request{Args: world.Bins("get", ak), Wait: true, Tag: ak}
			if i == 0 {
				g.Gap = 130000 // importing is set after one, migrating after two simulated minutes, the first key moves after three
			}
			blk.Reqs = append(blk.Reqs, g, world.Request{Args: world.Bins([]string{"set", "append", "getset"}[r.Intn(3)], pk, fmt.Sprintf("w%d", i)), Wait: true, Tag: pk})
		}
		sc.Conns = append(sc.Conns, blk)
	} else if r.Chance(1, 4) {
		// class "clusterdown": one master loses sight of the majority for a while and refuses keyed commands with
		// CLUSTERDOWN; ownership does not change, so whatever the proxy does about the refusal (report it, ask for a
		// new layout, try again) every command it sends is judged as always
		sc.Class += "+clusterdown"
		m := r.Intn(sc.Env.Masters)
		at := r.Intn(len(cs.Reqs)*4 + 1)
		sc.Faults = []Fault{{Kind: "clusterdown", Node: m, AfterSend: at}, {Kind: "clusterup", Node: m, AfterSend: at + 1 + r.Intn(len(cs.Reqs)*6+1)}}
	} else if sc.Env.Replicas > 0 && r.Chance(1, 3) {
		if strategy != 0 && r.Chance(1, 2) {
			// class "strategy-switch": a configuration update sets the read strategy to MASTER while the client works;
			// every read invoked after the update has returned must go to the owning master
			sc.Class += "+strategy-switch"
			sc.Faults = []Fault{{Kind: "read-strategy", Dst: 0, AfterSend: r.Intn(len(cs.Reqs)*8 + 1)}}
		} else {
			// class "host-replace": discovery replaces the whole host list (with the same hosts) while the client works;
			// ownership does not change, so every request is judged as always
			sc.Class += "+host-replace"
			sc.Faults = []Fault{{Kind: "host-replace", AfterSend: r.Intn(len(cs.Reqs)*8 + 1)}}
		}
	}
	return sc
}

func (p c14) Run(t *testing.T, s harness.Scenario) harness.Outcome {
	sc := s.(*RedisScenario)
	w := newRedisWorld(sc)
	var bad *simrtViolation
	logAt := map[int]int{} // request index -> cluster log length when it was sent
	lastLog := 0
	w.step = func(w *redisWorld) *simrtViolation {
		if bad != nil {
			return bad
		}
		cl := w.env.Cluster
		for _, c := range w.env.Clients {
			for _, sn := range c.Sent {
				if _, ok := logAt[sn.Idx]; !ok {
					logAt[sn.Idx] = lastLog
				}
			}
			if c.OnReply == nil {
				c.OnReply = func(c *world.Client, sn *world.Sent) {
					if bad != nil {
						return
					}
					rq := c.Script[sn.Idx]
					args := world.BinsToBytes(rq.Args)
					name := strings.ToLower(string(args[0]))
					// node log entries caused by this request: everything since it was sent that mentions its unique key
					var mine []cluster.LogEntry
					for _, le := range cl.Log[logAt[sn.Idx]:] {
						for _, a := range le.Args {
							if bytes.Contains(a, []byte(rq.Tag)) {
								mine = append(mine, le)
								break
							}
						}
					}
					// the read strategy in force for this request: MASTER from the start, or (class strategy-switch) once the
					// configuration update has returned; requests that overlap the update are not judged for it
					masterOnly := func(sn *world.Sent) bool {
						if sc.Env.ReadStrategy == 0 {
							return true
						}
						if w.strategyTask != nil && w.strategyDone > 0 && sn.InvokeStep > w.strategyDone {
							return true
						}
						return false
					}
					fail := func(clause, f string, a ...interface{}) {
						bad = &simrtViolation{Clause: clause, Detail: fmt.Sprintf("request %s (read strategy %s, %d masters x %d replicas): ", describeReq(rq), sc.Class, sc.Env.Masters, sc.Env.Replicas) + fmt.Sprintf(f, a...)}
					}
					switch {
					case localCmds[name]:
						if sn.Reply.IsErr() {
							fail("local-command-answered", "answered with %s", sn.Reply.String())
						} else if len(mine) > 0 {
							fail("local-command-not-forwarded", "node %d received %q", mine[0].Node, bytes.Join(mine[0].Args, []byte(" ")))
						}
						return
					case docUnsupported[name] || !redisCommands[name] || name == "asking" || name == "readonly" || name == "readwrite":
						// the documentation's unsupported list, and names that are no Redis command at all
						if name == "scan" {
							return
						}
						if !sn.Reply.IsErr() {
							fail("unsupported-gets-error", "answered with %s", sn.Reply.String())
						} else if len(mine) > 0 {
							fail("unsupported-not-forwarded", "node %d received %q", mine[0].Node, bytes.Join(mine[0].Args, []byte(" ")))
						}
						return
					}
					// any other name: either rejected without backend traffic, or forwarded as a keyed command
					if len(mine) == 0 {
						return
					}
					if len(sc.Faults) > 0 && sc.Faults[0].Kind == "layout" {
						// slot-move: only the moved slot's owner changes; requests for every other slot are judged throughout
						if len(args) > 1 {
							k := args[1]
							if name == "eval" && len(args) > 3 {
								k = args[3]
							}
							if s := cluster.Slot(k); s >= sc.Faults[0].From && s <= sc.Faults[0].To {
								return
							}
						}
					} else if len(sc.Faults) > 0 && sc.Faults[0].Kind == "mig-start" && len(args) > 1 && cluster.Slot(args[1]) == sc.Faults[0].From {
						// open-migration: judged while the slot still belongs to the node it started on (a run whose timers
						// are late may take minutes per hop; once the migration has been finalised the history of this
						// request straddles an ownership change)
						a0 := sc.Faults[0].From / (cluster.NumSlots / sc.Env.Masters)
						if a0 >= sc.Env.Masters {
							a0 = sc.Env.Masters - 1
						}
						if int(cl.Owner[sc.Faults[0].From]) != a0 {
							return
						}
					} else if len(sc.Faults) > 0 && sc.Faults[0].Kind == "replica-move" && c.Name == "c0" && (len(w.faultSteps) == 0 || w.faultSteps[0] < 0 || sn.DoneStep >= w.faultSteps[0]) {
						// the layout is changing under this request and the proxy cannot know yet: judged in the second block
						return
					}
					if name == "eval" && len(args) > 2 && string(args[2]) == "0" {
						// no key: the script can modify data, so it must at least not run on a replica
						for _, le := range mine {
							if cl.Nodes[le.Node].MasterOf >= 0 {
								fail("write-only-at-owning-master", "EVAL without keys was sent to replica node %d", le.Node)
								return
							}
						}
						return
					}
					if name == "scan" {
						return
					}
					key := args[1]
					if name == "eval" && len(args) > 3 {
						key = args[3]
					}
					owner := cl.OwnerOfKey(key)
					write := redisWrite[name]
					if name == "sort" {
						write = false
						for _, a := range args[2:] {
							if strings.EqualFold(string(a), "store") {
								write = true
							}
						}
					}
					for _, le := range mine {
						n := cl.Nodes[le.Node]
						if _, importing := n.Importing[cluster.Slot(key)]; importing && le.Asking {
							// the one command after ASKING at the importing node of an open migration: what the protocol asks for
							w.rt.Probe("c14.executed-after-asking")
							continue
						}
						isOwner := le.Node == owner
						isReplicaOfOwner := n.MasterOf == owner
						if isReplicaOfOwner {
							w.rt.Probe("c14.executed-at-replica")
						} else if isOwner {
							w.rt.Probe("c14.executed-at-owner")
						}
						if write {
							w.rt.Probe("c14.write-forwarded")
						}
						switch {
						case write && !isOwner:
							role := "another master"
							if n.MasterOf >= 0 {
								role = fmt.Sprintf("a replica of master %d", n.MasterOf)
							}
							fail("write-only-at-owning-master", "a command that can modify data was sent to node %d (%s); the key's slot belongs to master %d", le.Node, role, owner)
							return
						case !write && !isOwner && !isReplicaOfOwner:
							fail("read-at-owner-or-its-replica", "sent to node %d which is neither master %d (slot owner) nor one of its replicas", le.Node, owner)
							return
						case !write && isReplicaOfOwner && masterOnly(sn):
							fail("replica-only-when-strategy-permits", "sent to replica node %d although the read strategy is MASTER", le.Node)
							return
						case !write && isReplicaOfOwner && !le.ReadOnly:
							fail("replica-read-after-readonly", "sent to replica node %d on a connection that never issued READONLY", le.Node)
							return
						}
					}
				}
			}
		}
		lastLog = len(cl.Log)
		return bad
	}
	out := runRedis(t, sc, w)
	out.Nontrivial = sc.Env.Replicas > 0 || sc.Env.Masters > 1
	return out
}

func (p c14) Shrink(s harness.Scenario) []harness.Scenario { return shrinkRedis(s.(*RedisScenario)) }

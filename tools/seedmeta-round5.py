#!/usr/bin/env python3
"""meta.json for the round-5 seeded changes."""
import subprocess,os
notes={
"C01-scan-cursor-echoed-in-error":("a SCAN whose cursor is not a number and contains CR LF","yes","kth-reply-is-kth-result (missed at first: only command names were hostile; caught after well-known commands with hostile arguments were added to the generator)"),
"C01-filter-answered-request-answered-again-on-flush-error":("compression on, a refused command last in the queue behind unflushed requests, the backend write failing at that flush","yes (by the check of C02)","not reachable by C01's scenarios (no connection faults); caught by ./check C02 (no-panic: close of closed channel), whose statement it breaks literally"),
"C03-mget-empty-value-becomes-null":("MGET over a key that holds the empty string","yes","linearizable-with-program-order (detected at the quick tier)"),
"C03-empty-key-routed-to-random-host":("a keyed command on the empty key, more than one node","yes","no-redirection-on-stable-cluster (missed at first: the key corpus had no empty key; caught after it was added)"),
"C05-limit-wrapper-hides-closewrite":("a configured connection limit, the backend finishing first, a client that waits for end-of-stream","yes","eof-delivered (missed at first: no scenario configured a limit, and end-of-stream was only demanded by the horizon, which the idle timeout satisfies; caught after an unreached limit was added to a quarter of the scenarios and end-of-stream is demanded within 20 s + 8 x slack of the last byte)"),
"C05-retry-dial-shadows-host":("a dial failure to a member, the retry to another host succeeding, then the removal of the first host","yes","eof-only-when-sender-finished / stream-complete (missed at first: no membership change in C05; caught after the class other-host-removed was added)"),
"C06-remove-requires-equal-type":("a removal whose endpoint object carries another type than the stored one","yes","relayed-to-usable-host / established-closed-on-removal (missed at first; caught after a third of the generated removals carry the other type, as the store hands on whatever the remover gave)"),
"C06-round-robin-reset-on-any-config-update":("round-robin, a configuration update that does not change the policy while the cursor is mid-cycle","yes","round-robin-exact (missed at first: no configuration updates in C06; caught after the class rr-config-update was added)"),
"C14-handler-lookup-truncates-long-names":("a name longer than 17 bytes that starts with georadiusbymember","yes","unsupported-gets-error (missed at first: the only such name in the corpus is the real command GEORADIUSBYMEMBER_RO, whose forwarding the oracle accepts; caught after names derived from real commands - suffix, prefix, doubled or dropped letter - were added)"),
"C14-clusterdown-retry-to-random-host":("a CLUSTERDOWN reply to a write","yes","write-only-at-owning-master (missed at first: the simulated cluster never answered CLUSTERDOWN for an owned slot; caught after the fault clusterdown/clusterup and the class clusterdown were added)"),
"C15-readd-known-member-enters-healthy-tier":("a member marked unhealthy, then announced again through Add","yes","usable-view-matches-model (detected at the quick tier)"),
"C15-threshold-only-update-not-stored":("a health-check update that changes the thresholds only, then outcomes between the old and the new threshold","yes","flip-needs-consecutive-results / flip-happens-eventually (missed at first: the monitor class never reconfigured; caught after threshold-only updates at check-free points were added, judged with the thresholds that may have been in force)"),
"C16-queues-swapped-instead-of-drained":("more than 16 changes pending before the stream is up","yes","subscribe-returns (detected at the quick tier)"),
"C16-failed-batch-resent-after-resubscribe":("a failed send of a batch, the opposite change while the stream is down","yes","subscribed-equals-dependencies (detected at the quick tier)"),
"C20-downstream-outcome-counted-at-write":("a client that pipelines and goes away before it has read every reply","yes","rq-total-equals-success-plus-failure (missed at first: clients only closed after their last reply; caught after clients that leave in the middle of their pipeline were added)"),
"C20-cx-total-before-dial":("a dial failure to a member","yes","cx-total-equals-destroyed (detected at the quick tier)"),
}
for name,(needs,det,by) in notes.items():
    if not os.path.isdir('/verif/seeded/'+name): print('missing',name); continue
    subprocess.run(['/verif/tools/seedmeta.py',name,name.split('-')[0],needs,det,by],stdout=subprocess.DEVNULL)
print('done')

#!/bin/bash
# usage: tools/seedconfirm.sh <worktree> <k> <pkgdir> <PROP> <name>
# Confirms a seeded change independently: (1) it applies and builds, (2) the packages' existing tests pass with it,
# (3) its demonstration fails with it and (4) passes without it.  On success the change is stored under
# /verif/seeded/<PROP>-<name>/ (patch.diff, demo, meta.json is written by the caller afterwards).
set -u
export GOFLAGS=-mod=mod GOPROXY=off GOSUMDB=off
WT=$1; K=$2; PKG=$3; PROP=$4; NAME=$5
S=$WT/.seed
LOG=/tmp/seedconfirm-$PROP-$NAME.log
: > $LOG
cd $WT || exit 2
git checkout -q -- . ; rm -f $PKG/zz_seed_demo*_test.go
git checkout -q --detach "$(git -C /repo rev-parse HEAD)" || exit 2
git apply $S/patch$K.diff || { echo "FAIL apply" | tee -a $LOG; exit 1; }
go build ./... >> $LOG 2>&1 || { echo "FAIL build" | tee -a $LOG; git checkout -q -- .; exit 1; }
ok=0
for try in 1 2 3; do
  if go test -count=1 ./proc/... ./host/... ./config/... ./controller/... ./cmd/... >> $LOG 2>&1; then ok=1; break; fi
done
[ $ok = 1 ] || { echo "FAIL existing tests with change" | tee -a $LOG; git checkout -q -- .; exit 1; }
cp $S/demo${K}_test.go $PKG/zz_seed_demo${K}_test.go
if go test ${SEED_TAGS:+-tags $SEED_TAGS} -count=1 -run "TestSeedDemo${K}" ./$PKG/ >> $LOG 2>&1; then echo "FAIL demo passes WITH change" | tee -a $LOG; rm -f $PKG/zz_seed_demo*_test.go; git checkout -q -- .; exit 1; fi
git checkout -q -- .
cp $S/demo${K}_test.go $PKG/zz_seed_demo${K}_test.go
if ! go test ${SEED_TAGS:+-tags $SEED_TAGS} -count=1 -run "TestSeedDemo${K}" ./$PKG/ >> $LOG 2>&1; then echo "FAIL demo fails WITHOUT change" | tee -a $LOG; rm -f $PKG/zz_seed_demo*_test.go; exit 1; fi
rm -f $PKG/zz_seed_demo*_test.go
D=/verif/seeded/$PROP-$NAME
mkdir -p $D
cp $S/patch$K.diff $D/patch.diff
cp $S/demo${K}_test.go $D/demo_test.go
cp $S/notes$K.md $D/notes.md 2>/dev/null
echo "CONFIRMED $PROP-$NAME" | tee -a $LOG

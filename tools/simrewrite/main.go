// simrewrite: build-time source instrumentation for deterministic simulation.
//
// It loads the packages under test from the repository's CURRENT working tree
// (with types), rewrites every scheduling-relevant construct into a call of the
// simhook package (see DESIGN.md §2.2 T1..T9) and writes the rewritten files plus a
// go-build overlay file.  With no simulator installed all hooks fall through to
// the original operation, so the rewritten code behaves like the original.
//
// usage: simrewrite -repo DIR -out DIR [-hook importpath] pkgpattern...
package main

import (
	"bytes"
	"encoding/json"
	"flag"
	"fmt"
	"go/ast"
	"go/printer"
	"go/token"
	"go/types"
	"os"
	"path/filepath"
	"sort"
	"strconv"
	"strings"

	"golang.org/x/tools/go/ast/astutil"
	"golang.org/x/tools/go/packages"
)

var (
	repoDir   = flag.String("repo", "/repo", "repository root")
	outDir    = flag.String("out", "", "output directory")
	hookPath  = flag.String("hook", "verif.local/sim/simhook", "import path of the hook package")
	tags      = flag.String("tags", "verif", "build tags")
	denseAll  = flag.Bool("dense-all", true, "put a MemYieldAll scheduling point before every plain statement of every function (enabled per run by the harness)")
	denseSkip = flag.String("dense-skip", "proc/redis/codec.go,proc/redis/bufio.go,proc/internal/hc/atcp/conn.go", "files (path suffixes) left without MemYieldAll points: per-connection private byte loops")
	dense     = flag.String("dense", "", "comma-separated pkgpath:func list: a yield goes before every simple statement of these functions (preemption between plain memory accesses)")
)

type rw struct {
	pkg      *packages.Package
	info     *types.Info
	fset     *token.FileSet
	fn       string
	counters map[string]int
	used     bool
	stats    map[string]int
	sites    *[]string
	errs     *[]string
	file     string
}

func main() {
	flag.Parse()
	if *outDir == "" || flag.NArg() == 0 {
		fmt.Fprintln(os.Stderr, "usage: simrewrite -repo DIR -out DIR pkgs...")
		os.Exit(2)
	}
	abs, _ := filepath.Abs(*repoDir)
	cfg := &packages.Config{
		Mode: packages.NeedName | packages.NeedFiles | packages.NeedCompiledGoFiles | packages.NeedSyntax |
			packages.NeedTypes | packages.NeedTypesInfo | packages.NeedImports,
		Dir:        abs,
		BuildFlags: []string{"-tags=" + *tags},
	}
	pkgs, err := packages.Load(cfg, flag.Args()...)
	if err != nil {
		fmt.Fprintln(os.Stderr, "load:", err)
		os.Exit(2)
	}
	if err := os.MkdirAll(*outDir, 0o755); err != nil {
		fmt.Fprintln(os.Stderr, err)
		os.Exit(2)
	}
	overlay := map[string]string{}
	total := map[string]int{}
	var sites, errs []string
	sort.Slice(pkgs, func(i, j int) bool { return pkgs[i].PkgPath < pkgs[j].PkgPath })
	for _, p := range pkgs {
		if len(p.Errors) > 0 {
			fmt.Fprintln(os.Stderr, "package errors", p.PkgPath, p.Errors)
			os.Exit(2)
		}
		for i, f := range p.Syntax {
			name := p.CompiledGoFiles[i]
			if strings.HasSuffix(name, "_test.go") || !strings.HasSuffix(name, ".go") {
				continue
			}
			r := &rw{pkg: p, info: p.TypesInfo, fset: p.Fset, counters: map[string]int{}, stats: total, sites: &sites, errs: &errs, file: name}
			r.fileRewrite(f)
			if !r.used {
				continue
			}
			astutil.AddImport(p.Fset, f, *hookPath)
			for _, imp := range []string{"math/rand", "github.com/kavu/go_reuseport", "net", "sync", "time"} {
				if !astutil.UsesImport(f, imp) {
					if imp == "github.com/kavu/go_reuseport" {
						astutil.DeleteNamedImport(p.Fset, f, "reuseport", imp)
					}
					astutil.DeleteImport(p.Fset, f, imp)
				}
			}
			// drop comments after the package clause: the printer would misplace them in rewritten code.
			var keep []*ast.CommentGroup
			for _, cg := range f.Comments {
				if cg.End() < f.Package {
					keep = append(keep, cg)
				}
			}
			f.Comments = keep
			var buf bytes.Buffer
			if err := (&printer.Config{Mode: printer.UseSpaces | printer.TabIndent, Tabwidth: 8}).Fprint(&buf, p.Fset, f); err != nil {
				fmt.Fprintln(os.Stderr, "print:", err)
				os.Exit(2)
			}
			rel, _ := filepath.Rel(abs, name)
			dst := filepath.Join(*outDir, strings.ReplaceAll(rel, "/", "__"))
			if err := os.WriteFile(dst, buf.Bytes(), 0o644); err != nil {
				fmt.Fprintln(os.Stderr, err)
				os.Exit(2)
			}
			overlay[name] = dst
		}
	}
	b, _ := json.MarshalIndent(map[string]interface{}{"Replace": overlay}, "", " ")
	os.WriteFile(filepath.Join(*outDir, "overlay.json"), b, 0o644)
	sb, _ := json.MarshalIndent(map[string]interface{}{"files": len(overlay), "stats": total, "sites": sites, "errors": errs}, "", " ")
	os.WriteFile(filepath.Join(*outDir, "rewrite-stats.json"), sb, 0o644)
	fmt.Printf("simrewrite: files=%d stats=%v\n", len(overlay), total)
	if len(errs) > 0 {
		for _, e := range errs {
			fmt.Fprintln(os.Stderr, "UNSUPPORTED:", e)
		}
		os.Exit(3)
	}
}

func (r *rw) unsupported(n ast.Node, what string) {
	*r.errs = append(*r.errs, fmt.Sprintf("%s: %s (%s)", r.fset.Position(n.Pos()), what, r.fn))
}

func (r *rw) site(kind string) ast.Expr {
	r.counters[kind]++
	r.used = true
	r.stats[kind]++
	s := fmt.Sprintf("%s#%s%d", r.fn, kind, r.counters[kind])
	*r.sites = append(*r.sites, r.pkg.PkgPath+":"+s)
	return &ast.BasicLit{Kind: token.STRING, Value: strconv.Quote(s)}
}

func hook(name string, args ...ast.Expr) *ast.CallExpr {
	return &ast.CallExpr{Fun: &ast.SelectorExpr{X: ast.NewIdent("simhook"), Sel: ast.NewIdent(name)}, Args: args}
}

func (r *rw) fileRewrite(f *ast.File) {
	for _, d := range f.Decls {
		fd, ok := d.(*ast.FuncDecl)
		if !ok || fd.Body == nil {
			// package-level var initialisers: seam redirection, plus bodies of function literals
			r.fn = "init"
			if gd, ok := d.(*ast.GenDecl); ok && gd.Tok == token.VAR {
				for _, sp := range gd.Specs {
					vs := sp.(*ast.ValueSpec)
					if len(vs.Names) > 0 {
						r.fn = "var." + vs.Names[0].Name
					}
					r.counters = map[string]int{}
					for _, v := range vs.Values {
						ast.Inspect(v, func(n ast.Node) bool { r.seams(n); return true })
						r.funcLitsIn(v)
					}
				}
			}
			continue
		}
		r.fn = fd.Name.Name
		if fd.Recv != nil && len(fd.Recv.List) > 0 {
			r.fn = "(" + types.ExprString(fd.Recv.List[0].Type) + ")." + fd.Name.Name
		}
		r.counters = map[string]int{}
		r.block(fd.Body)
	}
}

// seams: T6/T7/T9 expression-level redirections
// isNetTCPConnPtr reports whether e is the type expression *net.TCPConn.
func (r *rw) isNetTCPConnPtr(e ast.Expr) bool {
	st, ok := e.(*ast.StarExpr)
	if !ok {
		return false
	}
	se, ok := st.X.(*ast.SelectorExpr)
	if !ok || se.Sel.Name != "TCPConn" {
		return false
	}
	id, ok := se.X.(*ast.Ident)
	if !ok {
		return false
	}
	pn, ok := r.info.Uses[id].(*types.PkgName)
	return ok && pn.Imported().Path() == "net"
}

func (r *rw) tcpConnIface() ast.Expr {
	r.used = true
	r.stats["seam"]++
	return &ast.SelectorExpr{X: ast.NewIdent("simhook"), Sel: ast.NewIdent("TCPConn")}
}

func (r *rw) seams(n ast.Node) {
	// T10: conn.(*net.TCPConn) and `case *net.TCPConn:` ask for the socket behind a connection (linger, no-delay,
	// keep-alive, half-close).  In simulation the connection is the simulated one: the assertion is made against an
	// interface that both satisfy.  (A value obtained this way that is then used as a *net.TCPConn - passed on,
	// stored in a typed variable - no longer compiles: a build failure, not a silently skipped seam.)
	switch v := n.(type) {
	case *ast.TypeAssertExpr:
		if v.Type != nil && r.isNetTCPConnPtr(v.Type) {
			v.Type = r.tcpConnIface()
		}
		return
	case *ast.CaseClause:
		for i, e := range v.List {
			if r.isNetTCPConnPtr(e) {
				v.List[i] = r.tcpConnIface()
			}
		}
		return
	}
	se, ok := n.(*ast.SelectorExpr)
	if !ok {
		return
	}
	id, ok := se.X.(*ast.Ident)
	if !ok {
		return
	}
	pn, ok := r.info.Uses[id].(*types.PkgName)
	if !ok {
		return
	}
	path := pn.Imported().Path()
	if id.Name == "simhook" {
		return // already redirected (statements are inspected at every nesting level)
	}
	switch {
	case path == "net" && (se.Sel.Name == "DialTimeout" || se.Sel.Name == "Dial" || se.Sel.Name == "Listen"):
		id.Name = "simhook"
		r.used = true
		r.stats["seam"]++
	case path == "github.com/kavu/go_reuseport" && se.Sel.Name == "NewReusablePortListener":
		id.Name = "simhook"
		se.Sel.Name = "Listen"
		r.used = true
		r.stats["seam"]++
	case path == "time" && (se.Sel.Name == "NewTimer" || se.Sel.Name == "NewTicker" || se.Sel.Name == "After" ||
		se.Sel.Name == "AfterFunc" || se.Sel.Name == "Sleep" || se.Sel.Name == "Tick"):
		id.Name = "simhook"
		r.used = true
		r.stats["timer"]++
	case path == "math/rand" && (se.Sel.Name == "Intn" || se.Sel.Name == "Int" || se.Sel.Name == "Float64" ||
		se.Sel.Name == "Int63" || se.Sel.Name == "Int63n" || se.Sel.Name == "Int31n" || se.Sel.Name == "Perm" || se.Sel.Name == "Seed"):
		id.Name = "simhook"
		se.Sel.Name = "Rand" + se.Sel.Name
		r.used = true
		r.stats["rand"]++
	}
}

func (r *rw) block(b *ast.BlockStmt) {
	if b == nil {
		return
	}
	b.List = r.stmts(b.List)
}

func (r *rw) stmts(list []ast.Stmt) []ast.Stmt {
	var out []ast.Stmt
	for _, s := range list {
		out = append(out, r.stmt(s)...)
	}
	return out
}

// syncMethod reports (pkgpath, typename, method, selector) for a method call on a named type.
func (r *rw) syncMethod(call *ast.CallExpr) (string, string, string, *ast.SelectorExpr) {
	se, ok := call.Fun.(*ast.SelectorExpr)
	if !ok {
		return "", "", "", nil
	}
	sel := r.info.Selections[se]
	if sel == nil || sel.Kind() != types.MethodVal {
		return "", "", "", nil
	}
	fn, ok := sel.Obj().(*types.Func)
	if !ok {
		return "", "", "", nil
	}
	sig := fn.Type().(*types.Signature)
	if sig.Recv() == nil {
		return "", "", "", nil
	}
	t := sig.Recv().Type()
	if p, ok := t.(*types.Pointer); ok {
		t = p.Elem()
	}
	nt, ok := t.(*types.Named)
	if !ok || nt.Obj().Pkg() == nil {
		return "", "", "", nil
	}
	return nt.Obj().Pkg().Path(), nt.Obj().Name(), fn.Name(), se
}

func isChan(t types.Type) bool {
	if t == nil {
		return false
	}
	_, ok := t.Underlying().(*types.Chan)
	return ok
}

func (r *rw) isSyncCall(v *ast.CallExpr) bool {
	if id, ok := v.Fun.(*ast.Ident); ok && len(v.Args) == 1 {
		if _, isB := r.info.Uses[id].(*types.Builtin); isB && (id.Name == "close" || id.Name == "len" || id.Name == "cap") && isChan(r.info.TypeOf(v.Args[0])) {
			return true
		}
	}
	pp, tn, _, _ := r.syncMethod(v)
	switch pp {
	case "sync":
		return tn != "Pool"
	case "sync/atomic", "go.uber.org/atomic":
		return true
	}
	return false
}

// hasSync: does the node (not descending into nested blocks / func literals) contain a sync op?
func (r *rw) hasSync(n ast.Node) bool {
	if n == nil {
		return false
	}
	found := false
	ast.Inspect(n, func(x ast.Node) bool {
		if found || x == nil {
			return false
		}
		switch v := x.(type) {
		case *ast.FuncLit, *ast.BlockStmt:
			if x != n {
				return false
			}
		case *ast.SendStmt, *ast.SelectStmt:
			found = true
		case *ast.UnaryExpr:
			if v.Op == token.ARROW {
				found = true
			}
		case *ast.CallExpr:
			if r.isSyncCall(v) {
				found = true
			}
		}
		return !found
	})
	return found
}

// hasLockCall: a Lock/RLock call in a position the rewriter does not convert (would block non-durably).
func (r *rw) checkStrayLocks(n ast.Node) {
	ast.Inspect(n, func(x ast.Node) bool {
		switch v := x.(type) {
		case *ast.FuncLit, *ast.BlockStmt:
			if x != n {
				return false
			}
		case *ast.CallExpr:
			pp, tn, m, _ := r.syncMethod(v)
			if pp == "sync" && (tn == "Mutex" || tn == "RWMutex") && (m == "Lock" || m == "RLock") {
				r.unsupported(v, "mutex Lock in expression position")
			}
			if pp == "sync" && tn == "Cond" {
				r.unsupported(v, "sync.Cond")
			}
			if pp == "sync" && tn == "Once" && m == "Do" {
				r.unsupported(v, "Once.Do in expression position")
			}
		}
		return true
	})
}

// isDense: the current function is instrumented at statement granularity.
func (r *rw) isDense() bool {
	if *dense == "" {
		return false
	}
	for _, d := range strings.Split(*dense, ",") {
		if d == r.pkg.PkgPath+":"+r.fn {
			return true
		}
	}
	return false
}

func (r *rw) memYield() ast.Stmt { return &ast.ExprStmt{X: hook("MemYield", r.site("mem"))} }

// anyYield: the scheduling point put before a plain statement. Functions of the -dense list get MemYield (on whenever
// the profile says so), every other function gets MemYieldAll (on only in runs drawn as "dense": preemption between
// plain memory accesses anywhere in the code under test).
func (r *rw) anyYield() ast.Stmt {
	if strings.HasPrefix(r.fn, "var.") || r.fn == "init" {
		// initialisers of package variables, in practice the New functions of sync.Pools: whether the runtime calls them
		// depends on the garbage collector, a scheduling point there would make runs unrepeatable
		return nil
	}
	if r.isDense() {
		return r.memYield()
	}
	if !*denseAll {
		return nil
	}
	for _, suf := range strings.Split(*denseSkip, ",") {
		if suf != "" && strings.HasSuffix(r.file, suf) {
			return nil
		}
	}
	return &ast.ExprStmt{X: hook("MemYieldAll", r.site("mem"))}
}

func simpleOperand(e ast.Expr) bool {
	switch v := e.(type) {
	case *ast.Ident, *ast.BasicLit:
		return true
	case *ast.SelectorExpr:
		return simpleOperand(v.X)
	case *ast.ParenExpr:
		return simpleOperand(v.X)
	case *ast.StarExpr:
		return simpleOperand(v.X)
	}
	return false
}

// sharedPlace: an assignable place that may be shared between goroutines and whose evaluation has no side effect.
func sharedPlace(e ast.Expr) bool {
	switch v := e.(type) {
	case *ast.SelectorExpr:
		return simpleOperand(v.X)
	case *ast.StarExpr:
		return simpleOperand(v.X)
	case *ast.IndexExpr:
		return simpleOperand(v.X) && simpleOperand(v.Index)
	}
	return false
}

var opOf = map[token.Token]token.Token{
	token.ADD_ASSIGN: token.ADD, token.SUB_ASSIGN: token.SUB, token.MUL_ASSIGN: token.MUL, token.QUO_ASSIGN: token.QUO,
	token.REM_ASSIGN: token.REM, token.AND_ASSIGN: token.AND, token.OR_ASSIGN: token.OR, token.XOR_ASSIGN: token.XOR,
	token.SHL_ASSIGN: token.SHL, token.SHR_ASSIGN: token.SHR, token.AND_NOT_ASSIGN: token.AND_NOT,
}

// splitRMW rewrites "place op= x" / "place++" into load, scheduling point, store: a read-modify-write of plain memory
// is not atomic, and another goroutine may run between the load and the store.
func (r *rw) splitRMW(s ast.Stmt) []ast.Stmt {
	y := r.anyYield()
	if y == nil {
		return nil
	}
	var place, rhs ast.Expr
	var op token.Token
	switch v := s.(type) {
	case *ast.AssignStmt:
		o, ok := opOf[v.Tok]
		if !ok || len(v.Lhs) != 1 || len(v.Rhs) != 1 || !sharedPlace(v.Lhs[0]) {
			return nil
		}
		if t := r.info.TypeOf(v.Lhs[0]); t != nil {
			if _, isMap := r.info.TypeOf(v.Lhs[0]).Underlying().(*types.Map); isMap {
				return nil
			}
		}
		if ix, ok := v.Lhs[0].(*ast.IndexExpr); ok {
			if t := r.info.TypeOf(ix.X); t != nil {
				if _, isMap := t.Underlying().(*types.Map); isMap {
					return nil // m[k] op= x: a concurrent map access is a fatal error of its own kind, leave it alone
				}
			}
		}
		place, rhs, op = v.Lhs[0], &ast.ParenExpr{X: v.Rhs[0]}, o
	case *ast.IncDecStmt:
		if !sharedPlace(v.X) {
			return nil
		}
		if ix, ok := v.X.(*ast.IndexExpr); ok {
			if t := r.info.TypeOf(ix.X); t != nil {
				if _, isMap := t.Underlying().(*types.Map); isMap {
					return nil
				}
			}
		}
		place, rhs, op = v.X, &ast.BasicLit{Kind: token.INT, Value: "1"}, token.ADD
		if v.Tok == token.DEC {
			op = token.SUB
		}
	default:
		return nil
	}
	r.stats["rmw-split"]++
	tmp := ast.NewIdent("__rmw")
	load := &ast.AssignStmt{Lhs: []ast.Expr{tmp}, Tok: token.DEFINE, Rhs: []ast.Expr{place}}
	store := &ast.AssignStmt{Lhs: []ast.Expr{place}, Tok: token.ASSIGN, Rhs: []ast.Expr{&ast.BinaryExpr{X: tmp, Op: op, Y: rhs}}}
	return []ast.Stmt{y, &ast.BlockStmt{List: []ast.Stmt{load, r.rmwYield(), store}}}
}

// rmwYield: the scheduling point between the load and the store of a split read-modify-write (site kind "rmw": in a
// dense run these are on in every function, there are only a handful of them).
func (r *rw) rmwYield() ast.Stmt {
	if r.isDense() {
		return &ast.ExprStmt{X: hook("MemYield", r.site("rmw"))}
	}
	return &ast.ExprStmt{X: hook("MemYieldAll", r.site("rmw"))}
}

func (r *rw) yield() ast.Stmt { return &ast.ExprStmt{X: hook("Yield", r.site("op"))} }

func (r *rw) stmt(s ast.Stmt) []ast.Stmt {
	// expression-level seams everywhere in this statement (incl. nested)
	ast.Inspect(s, func(n ast.Node) bool { r.seams(n); return true })

	switch v := s.(type) {
	case *ast.BlockStmt:
		r.block(v)
		return []ast.Stmt{v}
	case *ast.LabeledStmt:
		inner := r.stmt(v.Stmt)
		if len(inner) == 1 {
			v.Stmt = inner[0]
			return []ast.Stmt{v}
		}
		// yield(s) go before the label, the labelled statement keeps its label
		v.Stmt = inner[len(inner)-1]
		return append(inner[:len(inner)-1:len(inner)-1], v)
	case *ast.IfStmt:
		pre := r.hasSync(v.Cond) || (v.Init != nil && r.hasSync(v.Init))
		if v.Init != nil {
			r.funcLitsIn(v.Init)
			r.checkStrayLocks(v.Init)
		}
		r.funcLitsIn(v.Cond)
		r.checkStrayLocks(v.Cond)
		r.block(v.Body)
		if v.Else != nil {
			e := r.stmt(v.Else)
			if len(e) == 1 {
				v.Else = e[0]
			} else {
				v.Else = &ast.BlockStmt{List: e}
			}
		}
		if pre {
			return []ast.Stmt{r.yield(), v}
		}
		return []ast.Stmt{v}
	case *ast.ForStmt:
		if v.Post != nil && r.hasSync(v.Post) {
			r.unsupported(v, "sync op in for post statement")
		}
		var pre []ast.Stmt
		if v.Init != nil && r.hasSync(v.Init) {
			pre = append(pre, r.yield())
		}
		condSync := v.Cond != nil && r.hasSync(v.Cond)
		if condSync {
			r.funcLitsIn(v.Cond)
			r.checkStrayLocks(v.Cond)
		}
		r.block(v.Body)
		if condSync {
			// for init; cond; post { body }  ==  for init; ; post { if !(cond) { break }; body }
			// with a scheduling point ahead of every evaluation of the condition (e.g. len(ch) of a channel)
			cond := v.Cond
			v.Cond = nil
			guard := &ast.IfStmt{
				Cond: &ast.UnaryExpr{Op: token.NOT, X: &ast.ParenExpr{X: cond}},
				Body: &ast.BlockStmt{List: []ast.Stmt{&ast.BranchStmt{Tok: token.BREAK}}},
			}
			v.Body.List = append([]ast.Stmt{r.yield(), guard}, v.Body.List...)
		}
		return append(pre, v)
	case *ast.RangeStmt:
		r.funcLitsIn(v.X)
		t := r.info.TypeOf(v.X)
		if isChan(t) {
			return r.chanRange(v)
		}
		r.block(v.Body)
		if m, ok := t.Underlying().(*types.Map); ok {
			if b, ok := m.Key().Underlying().(*types.Basic); ok && b.Kind() == types.String {
				return r.mapRange(v, "SortedStringKeys", "string")
			}
			if types.Implements(m.Key(), netConnIface(r.pkg)) {
				return r.mapRange(v, "SortedConnKeys", "net.Conn")
			}
			r.stats["maprange-unordered"]++
			if r.deepSync(v.Body) {
				r.unsupported(v, "range over map with unordered key type and scheduling points in body")
			}
		}
		if r.hasSync(v.X) {
			return []ast.Stmt{r.yield(), v}
		}
		return []ast.Stmt{v}
	case *ast.SwitchStmt:
		pre := (v.Init != nil && r.hasSync(v.Init)) || (v.Tag != nil && r.hasSync(v.Tag))
		for _, c := range v.Body.List {
			cc := c.(*ast.CaseClause)
			for _, e := range cc.List {
				if r.hasSync(e) {
					pre = true
				}
			}
			cc.Body = r.stmts(cc.Body)
		}
		if pre {
			return []ast.Stmt{r.yield(), v}
		}
		return []ast.Stmt{v}
	case *ast.TypeSwitchStmt:
		for _, c := range v.Body.List {
			cc := c.(*ast.CaseClause)
			cc.Body = r.stmts(cc.Body)
		}
		return []ast.Stmt{v}
	case *ast.SelectStmt:
		for _, c := range v.Body.List {
			cc := c.(*ast.CommClause)
			cc.Body = r.stmts(cc.Body)
		}
		return []ast.Stmt{&ast.ExprStmt{X: hook("Yield", r.site("select"))}, v}
	case *ast.GoStmt:
		return r.goStmt(v)
	case *ast.DeferStmt:
		r.funcLitsIn(v.Call)
		if r.hasSync(v.Call) {
			if repl := r.lockCall(v.Call); repl != nil {
				v.Call = &ast.CallExpr{Fun: &ast.FuncLit{Type: &ast.FuncType{Params: &ast.FieldList{}}, Body: &ast.BlockStmt{List: repl}}}
				return []ast.Stmt{v}
			}
			// defer f(args) containing a sync op: wrap the no-argument forms so the yield happens at call time
			if len(v.Call.Args) == 0 {
				call := v.Call
				v.Call = &ast.CallExpr{Fun: &ast.FuncLit{Type: &ast.FuncType{Params: &ast.FieldList{}}, Body: &ast.BlockStmt{List: []ast.Stmt{r.yield(), &ast.ExprStmt{X: call}}}}}
				r.stats["defer-wrapped"]++
			} else if id, ok := v.Call.Fun.(*ast.Ident); ok && id.Name == "close" && len(v.Call.Args) == 1 {
				// defer close(ch): ch evaluated now
				tmp := ast.NewIdent("__dch")
				call := v.Call
				arg := call.Args[0]
				call.Args = []ast.Expr{tmp}
				v.Call = &ast.CallExpr{Fun: &ast.FuncLit{Type: &ast.FuncType{Params: &ast.FieldList{}}, Body: &ast.BlockStmt{List: []ast.Stmt{r.yield(), &ast.ExprStmt{X: call}}}}}
				r.stats["defer-wrapped"]++
				return []ast.Stmt{&ast.AssignStmt{Lhs: []ast.Expr{tmp}, Tok: token.DEFINE, Rhs: []ast.Expr{arg}}, v}
			} else {
				r.unsupported(v, "defer of a sync op with arguments")
			}
		}
		return []ast.Stmt{v}
	case *ast.ExprStmt:
		r.funcLitsIn(v.X)
		if call, ok := v.X.(*ast.CallExpr); ok {
			if repl := r.lockCall(call); repl != nil {
				return repl
			}
			if pp, tn, m, se := r.syncMethod(call); pp == "sync" && tn == "Once" && m == "Do" {
				r.stats["once"]++
				r.used = true
				return []ast.Stmt{&ast.ExprStmt{X: hook("OnceDo", r.site("once"), &ast.UnaryExpr{Op: token.AND, X: se.X}, call.Args[0])}}
			}
		}
		r.checkStrayLocks(v)
		if r.hasSync(v) {
			return []ast.Stmt{r.yield(), v}
		}
		if y := r.anyYield(); y != nil {
			return []ast.Stmt{y, v}
		}
		return []ast.Stmt{v}
	default:
		r.funcLitsIn(s)
		r.checkStrayLocks(s)
		if r.hasSync(s) {
			return []ast.Stmt{r.yield(), s}
		}
		switch s.(type) {
		case *ast.AssignStmt, *ast.IncDecStmt:
			if sp := r.splitRMW(s); sp != nil {
				return sp
			}
			if y := r.anyYield(); y != nil {
				return []ast.Stmt{y, s}
			}
		}
		return []ast.Stmt{s}
	}
}

var netConnCache = map[*packages.Package]*types.Interface{}

func netConnIface(p *packages.Package) *types.Interface {
	if it, ok := netConnCache[p]; ok {
		return it
	}
	var it *types.Interface
	var find func(pk *packages.Package, seen map[string]bool)
	find = func(pk *packages.Package, seen map[string]bool) {
		if it != nil || seen[pk.PkgPath] {
			return
		}
		seen[pk.PkgPath] = true
		if pk.PkgPath == "net" && pk.Types != nil {
			if o := pk.Types.Scope().Lookup("Conn"); o != nil {
				it, _ = o.Type().Underlying().(*types.Interface)
			}
			return
		}
		for _, ip := range pk.Imports {
			find(ip, seen)
		}
	}
	find(p, map[string]bool{})
	if it == nil {
		it = types.NewInterfaceType(nil, nil)
		// an empty interface would match everything: make it unsatisfiable instead
		it = types.NewInterfaceType([]*types.Func{types.NewFunc(token.NoPos, nil, "__never", types.NewSignatureType(nil, nil, nil, nil, nil, false))}, nil)
		it.Complete()
	}
	netConnCache[p] = it
	return it
}

// deepSync: any sync op or call anywhere below (including nested blocks, excluding func literals)?
func (r *rw) deepSync(n ast.Node) bool {
	found := false
	ast.Inspect(n, func(x ast.Node) bool {
		if found || x == nil {
			return false
		}
		switch v := x.(type) {
		case *ast.FuncLit:
			return false
		case *ast.SendStmt, *ast.SelectStmt, *ast.GoStmt:
			found = true
		case *ast.UnaryExpr:
			if v.Op == token.ARROW {
				found = true
			}
		case *ast.CallExpr:
			if r.isSyncCall(v) {
				found = true
			}
			if id, ok := v.Fun.(*ast.SelectorExpr); ok && id.Sel.Name != "" {
				if xi, ok := id.X.(*ast.Ident); ok && xi.Name == "simhook" {
					found = true
				}
			}
		}
		return !found
	})
	return found
}

// funcLitsIn processes bodies of function literals nested in expressions
func (r *rw) funcLitsIn(n ast.Node) {
	if n == nil {
		return
	}
	ast.Inspect(n, func(x ast.Node) bool {
		if fl, ok := x.(*ast.FuncLit); ok {
			r.block(fl.Body)
			return false
		}
		return true
	})
}

// lockCall: T3
func (r *rw) lockCall(call *ast.CallExpr) []ast.Stmt {
	pp, tn, m, se := r.syncMethod(call)
	if pp != "sync" || (tn != "Mutex" && tn != "RWMutex") {
		return nil
	}
	switch m {
	case "Lock":
		r.used = true
		r.stats["mutex"]++
		return []ast.Stmt{&ast.ExprStmt{X: hook("Acquire", r.site("lock"), &ast.SelectorExpr{X: se.X, Sel: ast.NewIdent("TryLock")})}}
	case "RLock":
		r.used = true
		r.stats["mutex"]++
		return []ast.Stmt{&ast.ExprStmt{X: hook("Acquire", r.site("rlock"), &ast.SelectorExpr{X: se.X, Sel: ast.NewIdent("TryRLock")})}}
	case "Unlock", "RUnlock":
		r.used = true
		r.stats["mutex"]++
		return []ast.Stmt{&ast.ExprStmt{X: call}, &ast.ExprStmt{X: hook("Released", r.site("unlock"))}}
	}
	return nil
}

// goStmt: T2
func (r *rw) goStmt(g *ast.GoStmt) []ast.Stmt {
	r.used = true
	pre := []ast.Stmt{r.yield()}
	id := ast.NewIdent("__tid")
	spawn := &ast.AssignStmt{Lhs: []ast.Expr{id}, Tok: token.DEFINE, Rhs: []ast.Expr{hook("Spawn", r.site("go"))}}
	start := &ast.ExprStmt{X: hook("Started", id)}
	exit := &ast.DeferStmt{Call: hook("Exited", id)}
	if fl, ok := g.Call.Fun.(*ast.FuncLit); ok {
		r.block(fl.Body)
		for _, a := range g.Call.Args {
			r.funcLitsIn(a)
		}
		fl.Body.List = append([]ast.Stmt{start, exit}, fl.Body.List...)
		return []ast.Stmt{&ast.BlockStmt{List: append(pre, spawn, g)}}
	}
	// go f(args) / go x.m(args): bind callee and args now, call in child
	pre = append(pre, spawn)
	fn := ast.NewIdent("__fn")
	pre = append(pre, &ast.AssignStmt{Lhs: []ast.Expr{fn}, Tok: token.DEFINE, Rhs: []ast.Expr{g.Call.Fun}})
	var args []ast.Expr
	for i, a := range g.Call.Args {
		v := ast.NewIdent("__a" + strconv.Itoa(i))
		pre = append(pre, &ast.AssignStmt{Lhs: []ast.Expr{v}, Tok: token.DEFINE, Rhs: []ast.Expr{a}})
		args = append(args, v)
	}
	body := &ast.BlockStmt{List: []ast.Stmt{start, exit, &ast.ExprStmt{X: &ast.CallExpr{Fun: fn, Args: args, Ellipsis: g.Call.Ellipsis}}}}
	g.Call = &ast.CallExpr{Fun: &ast.FuncLit{Type: &ast.FuncType{Params: &ast.FieldList{}}, Body: body}}
	return []ast.Stmt{&ast.BlockStmt{List: append(pre, g)}}
}

// chanRange: `for v := range ch {B}` -> `for { Yield; v, ok := <-ch; if !ok {break}; B }`
func (r *rw) chanRange(v *ast.RangeStmt) []ast.Stmt {
	// the rewrite gives v per-iteration scope: refuse when the body could capture it
	capt := false
	ast.Inspect(v.Body, func(x ast.Node) bool {
		switch x.(type) {
		case *ast.FuncLit, *ast.GoStmt, *ast.DeferStmt:
			capt = true
		}
		return !capt
	})
	if capt && v.Key != nil {
		r.unsupported(v, "range over channel whose body contains a closure/go/defer")
	}
	r.block(v.Body)
	r.used = true
	r.stats["chanrange"]++
	chv := ast.NewIdent("__ch")
	okv := ast.NewIdent("__ok")
	pre := &ast.AssignStmt{Lhs: []ast.Expr{chv}, Tok: token.DEFINE, Rhs: []ast.Expr{v.X}}
	var recv ast.Stmt
	rx := &ast.UnaryExpr{Op: token.ARROW, X: chv}
	var extra []ast.Stmt
	switch {
	case v.Key == nil:
		recv = &ast.AssignStmt{Lhs: []ast.Expr{ast.NewIdent("_"), okv}, Tok: token.DEFINE, Rhs: []ast.Expr{rx}}
	case v.Tok == token.DEFINE:
		recv = &ast.AssignStmt{Lhs: []ast.Expr{v.Key, okv}, Tok: token.DEFINE, Rhs: []ast.Expr{rx}}
		if id, ok := v.Key.(*ast.Ident); ok && id.Name != "_" {
			extra = append(extra, &ast.AssignStmt{Lhs: []ast.Expr{ast.NewIdent("_")}, Tok: token.ASSIGN, Rhs: []ast.Expr{ast.NewIdent(id.Name)}})
		}
	default:
		tmp := ast.NewIdent("__rv")
		recv = &ast.AssignStmt{Lhs: []ast.Expr{tmp, okv}, Tok: token.DEFINE, Rhs: []ast.Expr{rx}}
		extra = append(extra, &ast.AssignStmt{Lhs: []ast.Expr{v.Key}, Tok: token.ASSIGN, Rhs: []ast.Expr{tmp}})
	}
	brk := &ast.IfStmt{Cond: &ast.UnaryExpr{Op: token.NOT, X: okv}, Body: &ast.BlockStmt{List: []ast.Stmt{&ast.BranchStmt{Tok: token.BREAK}}}}
	body := []ast.Stmt{r.yield(), recv, brk}
	// when !ok the assignment of the zero value must not be observable: for the ASSIGN form do it after the check
	body = append(body, extra...)
	body = append(body, v.Body.List...)
	loop := &ast.ForStmt{Body: &ast.BlockStmt{List: body}}
	return []ast.Stmt{pre, loop}
}

// mapRange: T5
func (r *rw) mapRange(v *ast.RangeStmt, sorter, _ string) []ast.Stmt {
	r.used = true
	r.stats["maprange"]++
	mv := ast.NewIdent("__m")
	kv := ast.NewIdent("__k")
	pre := &ast.AssignStmt{Lhs: []ast.Expr{mv}, Tok: token.DEFINE, Rhs: []ast.Expr{v.X}}
	var body []ast.Stmt
	tok := v.Tok
	if tok == token.ILLEGAL {
		tok = token.DEFINE
	}
	okv := ast.NewIdent("__ok")
	body = append(body, &ast.AssignStmt{Lhs: []ast.Expr{ast.NewIdent("__v"), okv}, Tok: token.DEFINE, Rhs: []ast.Expr{&ast.IndexExpr{X: mv, Index: kv}}})
	body = append(body, &ast.IfStmt{Cond: &ast.UnaryExpr{Op: token.NOT, X: okv}, Body: &ast.BlockStmt{List: []ast.Stmt{&ast.BranchStmt{Tok: token.CONTINUE}}}})
	usedV := false
	bind := func(target ast.Expr, src *ast.Ident) {
		if target == nil {
			return
		}
		if id, ok := target.(*ast.Ident); ok && id.Name == "_" {
			return
		}
		if src.Name == "__v" {
			usedV = true
		}
		body = append(body, &ast.AssignStmt{Lhs: []ast.Expr{target}, Tok: tok, Rhs: []ast.Expr{src}})
		if tok == token.DEFINE {
			if id, ok := target.(*ast.Ident); ok {
				body = append(body, &ast.AssignStmt{Lhs: []ast.Expr{ast.NewIdent("_")}, Tok: token.ASSIGN, Rhs: []ast.Expr{ast.NewIdent(id.Name)}})
			}
		}
	}
	bind(v.Key, kv)
	bind(v.Value, ast.NewIdent("__v"))
	if !usedV {
		body = append(body, &ast.AssignStmt{Lhs: []ast.Expr{ast.NewIdent("_")}, Tok: token.ASSIGN, Rhs: []ast.Expr{ast.NewIdent("__v")}})
	}
	body = append(body, v.Body.List...)
	keys := hook(sorter, mv)
	var loop ast.Stmt
	if sorter == "SortedStringKeys" {
		// keys come back as []string; convert to the map's key type when it is a named string type
		loop = &ast.RangeStmt{Key: ast.NewIdent("_"), Value: ast.NewIdent("__ks"), Tok: token.DEFINE, X: keys, Body: &ast.BlockStmt{List: append([]ast.Stmt{
			&ast.AssignStmt{Lhs: []ast.Expr{kv}, Tok: token.DEFINE, Rhs: []ast.Expr{r.keyConv(v, ast.NewIdent("__ks"))}},
		}, body...)}}
	} else {
		// keys come back as []net.Conn; assert back to the map's key type
		loop = &ast.RangeStmt{Key: ast.NewIdent("_"), Value: ast.NewIdent("__ks"), Tok: token.DEFINE, X: keys, Body: &ast.BlockStmt{List: append([]ast.Stmt{
			&ast.AssignStmt{Lhs: []ast.Expr{kv}, Tok: token.DEFINE, Rhs: []ast.Expr{ast.NewIdent("__ks")}},
		}, body...)}}
		if m, ok := r.info.TypeOf(v.X).Underlying().(*types.Map); ok {
			if named, ok := m.Key().(*types.Named); !ok || named.Obj().Pkg() == nil || named.Obj().Pkg().Path() != "net" || named.Obj().Name() != "Conn" {
				r.unsupported(v, "map keyed by a net.Conn implementation other than net.Conn itself")
			}
		}
	}
	return []ast.Stmt{&ast.BlockStmt{List: []ast.Stmt{pre, loop}}}
}

func (r *rw) keyConv(v *ast.RangeStmt, e ast.Expr) ast.Expr {
	m := r.info.TypeOf(v.X).Underlying().(*types.Map)
	if b, ok := m.Key().(*types.Basic); ok && b.Kind() == types.String {
		return e
	}
	// named string type: conversion by its (package-qualified) name
	if named, ok := m.Key().(*types.Named); ok {
		var te ast.Expr = ast.NewIdent(named.Obj().Name())
		if named.Obj().Pkg() != nil && named.Obj().Pkg() != r.pkg.Types {
			r.unsupported(v, "map keyed by a named string type of another package")
		}
		return &ast.CallExpr{Fun: te, Args: []ast.Expr{e}}
	}
	return e
}

#!/usr/bin/env python3
"""Regenerates /verif/MANIFEST.json from the table below (keeps the file valid at all times)."""
import json, os, subprocess
V = os.path.dirname(os.path.dirname(os.path.abspath(__file__)))
TB = ("Trusted base: the simulator (tools/simrewrite instrumentation, sim/simhook scheduler, testing/synctest fake clock, "
      "runtime select-order overlay), the models (sim/simnet TCP, sim/cluster Redis Cluster actors, sim/refredis reference Redis, "
      "sim/resp2 codec) and the oracle code of the profile. Sampling, not proof: a clean batch is evidence over the explored runs.")
TECH = "deterministic simulation with fault injection: seeded search over schedules and fault sequences"
CHECKS = {
 "C01": ("exploration", "Seeded exploration of pipelines on 1-4 connections over 2-6 simulated cluster nodes with sender- and network-level fragmentation, back-pressure and every scheduler strategy; each reply is compared, as it arrives, with the reply a reference Redis gives for that connection's program, and the node logs must show every sub-command executed exactly once. Exploration is the right level because the property quantifies over schedules and fragmentations that only a controlled scheduler can vary.", "4.C01",
         TECH + "; oracle = per-connection reference model (refredis) + exact reply count"),
 "C02": ("fault_enumeration", "For fault-free base runs, one re-run per step of the active window with a backend reset / close / crash / host removal / host replacement / service stop injected before that step (same schedule prefix), plus random multi-fault runs with site-triggered faults at the upstream client's send, write, read and drain sites and a deep-queue class; oracle: no panic, never more replies than requests, and every request on a still-open connection answered within 10 simulated minutes after the last fault, judged in a fully drained final state.", "4.C02",
         TECH + "; systematic fault-point enumeration over the steps of base schedules"),
 "C03": ("exploration", "Seeded exploration of command programs (about 60 modelled string/key/hash/list/set/sorted-set commands plus opaque-mode commands) over 1-4 connections, binary-unsafe values up to 64 KiB (4 MiB in the thorough tier), routing-corpus keys covering brace placements and random bytes, and random slot layouts over 1-8 masters. Sequential programs are compared reply by reply with one reference Redis holding all data; concurrent programs are checked per key for linearizability with per-connection program order (porcupine); node logs must show zero redirections and exactly the clients' argument bytes.", "4.C03",
         TECH + "; differential testing against a reference model and linearizability checking (porcupine) of recorded histories"),
 "C07": ("exploration", "Seeded exploration of fault sequences (backend reset/close at any step, crash then restart on the same address, refused or timed-out first connect, re-sharding including emptying a master) around a steady request stream; after the last fault, with every backend reachable and the proxy quiescent, probe rounds read every node's keys: they must be answered correctly (no error), errors are admitted only for requests invoked before the heal point, and a second probe round at least one simulated minute later must cause no redirection.", "4.C07",
         TECH + "; bounded-liveness probes after faults stop"),
 "C04": ("exploration", "Seeded exploration of migration scripts (IMPORTING, MIGRATING, one MIGRATE per key, SETSLOT) for 1-3 slots, graceful and crash fail-overs and lagging CLUSTER NODES views, every step interleaved as a simulator event with pipelined traffic on the affected keys; oracle: no reply (or nested element) is a MOVED/ASK error, every attributable write is executed by exactly one node, per-key histories are linearizable w.r.t. a reference Redis (errors admitted only around a crash fail-over and then treated as may-or-may-not-have-happened), per-connection program order is checked separately, and after settling probes see no error and a later round causes no redirection.", "4.C04",
         TECH + "; linearizability checking (porcupine) of recorded histories against a reference Redis"),
 "C11": ("exploration", "Seeded exploration with two adversaries and a canary: adversarial downstream connections send mutated request streams (truncated frames, huge/negative/overflowing lengths, wrong terminators, nesting up to 10^6, megabyte inline lines, binary garbage, arbitrary sender-side splits), and adversarial backends replace the n-th reply to READONLY / CLUSTER NODES / ASKING / SCAN / ordinary commands by malformed MOVED/ASK/CLUSTERDOWN errors, malformed CLUSTER NODES texts, malformed SCAN replies and deeply nested frames; oracle: no task of the proxy panics, the worker process does not die (a Go fatal error is attributed to the journaled scenario and confirmed by replay), allocation around one adversarial message stays below 400 MiB, and a canary connection is served correctly once the adversaries have turned honest.", "4.C11",
         TECH + "; adversarial peers (grammar-aware mutation) with a canary oracle"),
 "C13": ("exploration", "Seeded exploration of write/read-back programs (SET incl. options, SETNX, GETSET, SETEX, PSETEX, MSET, HSET/HMSET with several pairs, HSETNX; GET, MGET, HGET, HMGET, HGETALL, HVALS) with values of every length around the threshold and six entropy classes, thresholds 1-4096, 1-4 connections sharing the pooled buffers and compressors, enable/disable toggles through OnSvcConfigUpdate at random steps, and re-sharding/migration so that writes are redirected and resent; oracle: every reply equals the reply of a per-connection reference Redis, every value stored on a node is the original or the documented header plus a snappy stream that expands to the original and is shorter, sub-threshold values are verbatim, disabled commands get an error and never reach a node.", "4.C13",
         TECH + "; differential testing against a reference model plus storage-form oracle (reference snappy decoder)"),
 "C14": ("exploration", "The Redis 5 command table (about 230 names, embedded with Redis's own write flags) is enumerated block-wise by run index in lower, upper and mixed case with 0-4 arguments under each of the three read strategies, together with random non-commands, on random layouts of 1-4 masters x 0-2 replicas, one sequential client with nanosecond-varied pacing (the replica choice depends on the clock). Each request carries a unique key so node log entries are attributable; oracle: documented-unsupported names and non-commands get an error and reach no node, locally answered commands are answered and reach no node, a forwarded write is only ever received by the master owning the key's slot, a forwarded read only by that master or one of its replicas, a replica only when the strategy permits and only on a connection that issued READONLY.", "4.C14",
         TECH + "; exhaustive enumeration of the command table inside seeded layouts"),
 "C18": ("exploration", "Seeded exploration of SCAN iterations over 1-6 simulated nodes with disjoint key sets (0-200 keys), scripted page sequences (empty pages, repeated elements) and arbitrary node cursors below 2^48 (boundary values included); adaptive clients iterate from cursor 0 with random MATCH/COUNT, several iterations and wild client-supplied cursors run concurrently; oracle: cursor 0 is reached within (sum of node pages + nodes + 1) calls, no phantom key, every matching key returned, nodes visited in host-list order with exactly their own cursor chains and unchanged MATCH/COUNT, a cursor past the last node gets the terminating reply, any client cursor gets exactly one reply.", "4.C18",
         TECH + "; scripted peers with adaptive client and exact call-chain oracle"),
 "C20": ("exploration", "The scenario generators of C01 (valid, invalid and unsupported requests), C02 (backend resets, closes, crashes, host removal/replacement), C04 (migrations, fail-overs, redirections) and a connection-limit class are reused; every history ends in quiescence, either with every client closing its connection or with Stop while connections are open. In that final state the statistics of the service scope are read through the public stats package: downstream/upstream cx_active = 0, cx_total = cx_destroy_total, rq_total = rq_success_total + rq_failure_total, every Redis command's total = success + error; gauges are sampled every 32 steps for wrap-around. TCP-service histories are covered by the same oracle inside the C05/C06/C09 worlds.", "4.C20",
         TECH + "; conservation invariants evaluated in quiescent final states"),
 "C05": ("exploration", "Seeded exploration of 1-6 simultaneous relayed connections (shared 16 KiB buffer pool) with keyed byte streams of 0 to 5x16 KiB+1 bytes (2 MiB in the thorough tier) in both directions, arbitrary chunking and pacing, socket buffers from 1 byte to 256 KiB (back-pressure), delivery fragmentation, and every finishing order (client half-closes first, backend first, both at once, one side closes completely, a direction carrying zero bytes); oracle at every step: what a receiver has read is a prefix of what its sender sent (streams are keyed by connection, so cross-talk is a prefix violation), end-of-stream only after the sender finished and after its last byte; at the end both directions are complete and every half-close was propagated.", "4.C05",
         TECH + "; byte-stream equality and end-of-stream placement oracles"),
 "C09": ("fault_enumeration", "For base runs of Redis and TCP services (0-4 connections, requests or streams in flight, 0-3 injected listen failures before the bind succeeds, temporary accept errors, responsive / silent / refusing backends), Stop or StopListen is injected before every scheduler step from the return of Start() on (same schedule prefix), plus random runs incl. drain-then-stop and connection-limit bursts; oracle: Stop/StopListen return within 10 simulated minutes; once Stop has returned and the system is quiescent the listening port is closed, every connection handed to the service (downstream and upstream) is closed and no goroutine spawned under the service is alive; after StopListen returned a new arrival is not served while established connections keep being served; never more than the limit of connections are served concurrently and exactly min(limit, arrivals) are served when none closes.", "4.C09",
         TECH + "; systematic injection of stop/drain before every step of base schedules"),
 "C06": ("exploration", "Two scenario classes. Policy level (real internal/lb through a verif re-export, instrumented): 2-8 tasks call PickHost concurrently on 1-9 hosts under every scheduler strategy with the random source fed from the scenario; round-robin must return every host exactly k times over n*k picks, random and least-connection only list members, least-connection never the strictly busier of its two samples. End to end (real TCP service): 1-6 backends in main/backup tiers, histories of OnSvcHostAdd / OnSvcHostRemove / OnSvcAllHostReplace called the way the controller does (fresh Host objects, one change at a time) interleaved with connection arrivals; every relayed connection must reach a backend that was a usable member (current endpoint set, preferred tier) at some step of its selection window [accept .. dial] under the reference host-set model, a connection with no usable host is closed, and connections established to a host are closed within 10 simulated minutes after its removal completed.", "4.C06",
         TECH + "; reference host-set model over selection windows"),
}
NA = {
}
def main():
    hooks_commits = []
    try:
        out = subprocess.run(["git", "-C", "/repo", "log", "--format=%h %s"], stdout=subprocess.PIPE).stdout.decode()
        for l in out.splitlines():
            h, s = l.split(" ", 1)
            if s.startswith("verif:") or s.startswith("hook:"):
                hooks_commits.append(h)
    except Exception:
        pass
    checks = []
    for pid in sorted(CHECKS):
        cat, text, ref, tech = CHECKS[pid]
        checks.append({
            "property_id": pid, "quick_cmd": "./check %s quick" % pid, "thorough_cmd": "./check %s thorough" % pid,
            "evidence_file": "/verif/evidence/%s.json" % pid, "replay_cmd_template": "./check %s --replay {path}" % pid,
            "engine": "simkit", "level_claimed": {"category": cat, "text": text, "design_ref": "DESIGN.md §" + ref},
            "level_note": TB, "technique": tech})
    m = {
        "version": 1,
        "setup_cmd": "./check setup",
        "hooks": {"guard": "verif",
                  "enable": "go test -tags verif: add-only files zz_verif_*.go export unexported entry points; scheduling instrumentation (yield points, cooperative mutexes, simulator-owned timers, dial/listen seams) is generated at build time from the current tree by tools/simrewrite and applied with -overlay, never committed",
                  "baseline_off_cmd": "cd /repo && GOFLAGS=-mod=mod go test -vet=off -count=1 -timeout 25m ./...",
                  "source_commits": hooks_commits, "add_only": True},
        "engines": [{"name": "simkit", "path": "/verif/sim", "serves_properties": sorted(CHECKS),
                     "kind_free_text": "deterministic discrete-event simulator for Go: AST-instrumented code under test, seeded cooperative scheduler inside a testing/synctest bubble, simulated TCP, simulated Redis Cluster, reference models, scenario shrinker, replay"}],
        "checks": checks,
        "notes": "See DESIGN.md. Known genuine defects are listed in known-findings.json (open = printed as KNOWN-FINDING, fixed = repaired by a 'fix:' commit in /repo).",
        "not_applicable": [{"property_id": k, "reason": v} for k, v in sorted(NA.items())],
    }
    json.dump(m, open(os.path.join(V, "MANIFEST.json"), "w"), indent=1)
if __name__ == "__main__":
    main()

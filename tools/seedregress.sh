#!/bin/bash
# usage: tools/seedregress.sh [tier] [name-filter]
# Runs every stored seeded change (seeded/<PROP>-<name>/patch.diff) against the current machinery in a scratch worktree
# and writes seeded/REGRESSION.txt: one line per change (detected yes/no, first violation clause).
TIER=${1:-quick}; FILTER=${2:-}
V="$(cd "$(dirname "$0")/.." && pwd)"   # works from a snapshot copy of /verif as well
WT=${REGRESS_WT:-/tmp/wt-regress}
git -C /repo worktree remove --force $WT 2>/dev/null
git -C /repo worktree add -q --detach $WT HEAD || exit 2
OUT=$V/seeded/REGRESSION.txt
: > $OUT.tmp
for d in $V/seeded/*/; do
  n=$(basename $d); p=${n%%-*}
  [ -n "$FILTER" ] && [[ "$n" != *$FILTER* ]] && continue
  [ -f $d/patch.diff ] || continue
  res=$($V/tools/seedtest.sh $WT $d/patch.diff $p $TIER 2>&1)
  rc=$(echo "$res" | grep -o "exit=[0-9]*" | tail -1)
  clause=$(echo "$res" | grep "^violation:" | head -1 | cut -d: -f2 | tr -d ' ')
  if echo "$res" | grep -q "patch does not apply"; then clause="PATCH-DOES-NOT-APPLY"; fi
  echo "$n $TIER $rc $clause" | tee -a $OUT.tmp
done
mv $OUT.tmp $OUT
git -C /repo worktree remove --force $WT

#!/usr/bin/env python3
"""Writes meta.json for the round-3 seeded changes (needs-to-manifest text from the authors' notes, detection from
seeded/REGRESSION.txt when present)."""
import json,os,subprocess
notes={
"C01-short-lines-alias-read-buffer":("a +status/-error reply parked behind a slower pipelined request while the backend connection reads again",""),
"C01-child-hooks-share-backing-array":("a multi-key command whose non-last key is redirected three times (twice when a compression section is configured)","missed at first; caught after the class migration+filters (compression section present, one slot answered MOVED and then ASK) was added"),
"C02-encoder-buffer-64k-starves-flush":("more than 1024 small requests outstanding towards one healthy backend (one MGET/DEL over 1100+ keys)","missed at first by C02's own check (caught by C01's deep-queue class); caught after the no-fault wide class was added to C02"),
"C02-reset-all-clients-stops-under-lock":("a full host replacement overlapping a MOVED/ASK answer on a connection that is being stopped",""),
"C03-hashtag-closing-brace-searched-from-start":("a key with a closing brace ahead of its first opening brace and a non-empty tag after it","missed at first; caught after such keys (and short strings over the alphabet a b { }) were added to the routing corpus"),
"C03-slots-array-reset-before-fill":("a keyed command looked up between the clearing and the refilling of the slot table","thorough tier only (same mechanism as the round-2 change slots-cleared-before-refill)"),
"C04-redirect-resent-in-background":("pipelined same-key requests redirected to a node the proxy has no connection to yet",""),
"C04-redirect-soon-after-refresh-not-triggering":("a redirection within the minimum refresh interval after a refresh, then the old owner leaving",""),
"C05-shared-buffer-returned-before-done":("the backend finishing first while the client still uploads, and another connection taking the same pooled buffer",""),
"C05-idle-timeout-sets-write-deadline":("one direction no longer read (half-close) while the other keeps sending past one idle timeout",""),
"C06-readd-falls-through-to-healthy-tier":("a member marked unhealthy, then the same endpoint announced again",""),
"C06-failed-dial-leaks-conn-count":("dial failures to a member under the least-connection policy, then new arrivals","missed at first; caught after the end-to-end least-connection class (scripted random source, sequential arrivals, dial failures first) was added"),
"C07-refresh-skips-same-node-id":("a replica re-attached to another master under REPLICA/BOTH, or a node returning on a new address with the same id","missed at first by C07's own check (caught by C14's replica-move class); caught after a replica-move class was added to C07"),
"C07-removeclient-clone-outside-lock":("two backend connections ending within the same few scheduling steps",""),
"C08-nil-endpoints-after-scale-to-zero":("a running service scaled to zero by a removal-only update, then given endpoints again",""),
"C08-controller-cancels-both-list-endpoints":("one update listing an address in both lists with a different type",""),
"C09-drain-during-bind-unnoticed":("StopListen landing inside the bind call",""),
"C09-serve-uses-reset-all-clients":("Stop arriving while a backend is being dialled, the backend then silent",""),
"C10-peek-refills-once":("a read boundary exactly between the CR and the LF that end a bulk payload, with an empty buffer","missed at first as an infrastructure failure (the decoder panicked inside the harness' own goroutine); decoder panics are now violations"),
"C10-readbytes-returns-buffer-alias":("an earlier status/error value looked at after a later read refilled the buffer",""),
"C11-redirection-log-indexes-key":("a backend answering the proxy's own READONLY/ASKING (one-element requests) with a well-formed MOVED",""),
"C11-empty-inline-line-recursion":("hundreds of thousands of consecutive empty lines","missed at first; caught after the blank-lines adversary was added"),
"C13-snappy-writer-deferred-close":("two backend write loops compressing at the same time",""),
"C13-compression-options-snapshot-per-connection":("a connection that exists before a configuration update enables compression",""),
"C14-read-candidates-cached-at-refresh":("the read strategy switched to MASTER by a configuration update, reads before the next slot refresh","missed at first; caught after the strategy-switch class (configuration update mid-run) was added"),
"C14-host-replace-clears-slots":("the whole host list replaced during traffic, writes before the next refresh","missed at first; caught after the host-replace class was added"),
"C15-late-verdict-accepted-by-equality":("a set replacement between the monitor's snapshot and a late verdict for the old object",""),
"C15-remove-unhealthy-skips-cache-rebuild":("Remove taking the lock between the flag change and the membership check of a concurrent MarkHostUnhealthy",""),
"C16-enqueue-before-set-update":("more than 16 calls pending while no sender runs",""),
"C16-flush-after-snapshot-send":("a Subscribe/Unsubscribe landing while the resubscription request is in flight",""),
"C17-reply-error-closes-conn-loop-spins":("a child dropped after its request was read and before the reply is written",""),
"C17-drain-without-socket-ignored":("a drain arriving while the listener is still in its bind-retry loop","not visible to C17's check (recording Instance); caught by ./check C09 (clause drain-stops-accepting)"),
"C18-add-skips-cache-rebuild-on-type-change":("a known host announced again with another type (backup to main), then a full SCAN","not visible to C18's check (its node set is fixed, all hosts main); caught by ./check C15 (clause usable-view-matches-model)"),
"C18-scan-bind-hook-before-cursor-rewrite":("the session writer reading the reply before the cursor-rewriting hook has run",""),
"C19-inplace-freq-bump-no-next-check":("a particular access history on a full counter",""),
"C19-hotkey-reply-in-pooled-buffer":("another user of the pooled buffers between the HOTKEY handler and the encoding of its reply","missed at first; caught after the busy end-to-end class (compression filter + concurrent HOTKEY requests) was added"),
"C20-completion-hook-only-first-hop":("a MOVED/ASK redirection",""),
"C20-refused-conn-counted-destroyed":("a connection arriving while the connection limit is reached",""),
}
reg={}
p='/verif/seeded/REGRESSION.txt'
if os.path.exists(p):
    for l in open(p):
        f=l.split()
        if len(f)>=3: reg[f[0]]=(f[2], f[3] if len(f)>3 else '')
for name,(needs,how) in notes.items():
    prop=name.split('-')[0]
    d='/verif/seeded/'+name
    if not os.path.isdir(d): print('missing',name); continue
    rc,clause=reg.get(name,('',''))
    det='yes' if rc in ('exit=1','') else 'no (quick tier)'
    if 'thorough tier only' in how: det='thorough tier only'
    if 'caught by ./check C09' in how: det='yes (by the check of C09)'
    if 'caught by ./check C15' in how: det='yes (by the check of C15)'
    by=(clause+' ' if clause else '')+('('+how+')' if how else '(detected at the quick tier)')
    subprocess.run(['/verif/tools/seedmeta.py',name,prop,needs,det,by],stdout=subprocess.DEVNULL)
print('done')

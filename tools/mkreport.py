#!/usr/bin/env python3
"""Regenerates the generated tables of DESIGN.md section 11 (between BEGIN:/END: markers) from
known-findings.json, seeded/*/meta.json, evidence/*.json and the last determinism self-test log."""
import json, glob, os, re, subprocess
V = "/verif"

def findings():
    k = json.load(open(V + "/known-findings.json"))
    out = ["| property | status | commit | clause | what failed |", "|---|---|---|---|---|"]
    for f in k["findings"]:
        out.append("| %s | %s | %s | %s | %s |" % (f["property"], f["status"], f.get("commit", "") or "—", f["clause"], f["what"].replace("|", "/")))
    nfix = len({f.get("commit") for f in k["findings"] if f["status"] == "fixed"})
    nopen = sum(1 for f in k["findings"] if f["status"] != "fixed")
    out.append("")
    out.append("%d entries: %d fixed (by %d `fix:` commits; some commits repair two manifestations of one defect), %d open." % (
        len(k["findings"]), len(k["findings"]) - nopen, nfix, nopen))
    return "\n".join(out)

def seeded():
    out = ["| seeded change | what it needs to manifest | caught by (clause; notes) |", "|---|---|---|"]
    n = det = 0
    for d in sorted(glob.glob(V + "/seeded/*/")):
        mp = d + "meta.json"
        if not os.path.exists(mp):
            continue
        m = json.load(open(mp))
        n += 1
        if m["check_result"]["detected"] == "yes":
            det += 1
        out.append("| `%s` | %s | %s%s |" % (os.path.basename(d[:-1]), m["needs_to_manifest"].replace("|", "/"),
                   "" if m["check_result"]["detected"] == "yes" else "**NOT DETECTED** — ", m["check_result"]["by"].replace("|", "/")))
    out.append("")
    out.append("%d confirmed seeded changes, %d detected by the quick tier of their property's check; the others are marked (thorough tier only / caught by another property's check)." % (n, det))
    missed = []
    for d in sorted(glob.glob(V + "/seeded/*/")):
        mp = d + "meta.json"
        if os.path.exists(mp):
            m = json.load(open(mp))
            by = m["check_result"]["by"]
            if "missed at first" in by or "needed " in by or "not visible" in by or "not caught at the quick tier" in by or "thorough tier only" in by:
                missed.append("* `%s`: %s" % (os.path.basename(d[:-1]), by.replace("|", "/")))
    if missed:
        out.append("")
        out.append("Seeded changes that were missed when first tried, and what was added to catch them (%d of %d):" % (len(missed), n))
        out.append("")
        out += missed
    return "\n".join(out)

def measured():
    out = ["Last evidence per property as committed (16 workers; written by the checks themselves; the evidence files carry the full fault-kind and probe counts, samples, strategies and scenario classes):", "",
           "| id (tier) | runs | distinct non-trivial | scheduler steps | simulated time | runs/hour | fault kinds fired (top 5) | wall |", "|---|---|---|---|---|---|---|---|"]
    for p in sorted(glob.glob(V + "/evidence/C*.json")):
        e = json.load(open(p))
        c = e.get("coverage", {})
        faults = c.get("fault_kinds_fired") or {}
        fk = ", ".join("%s %s" % (k, v) for k, v in sorted(faults.items(), key=lambda kv: -kv[1])[:5])
        out.append("| %s (%s) | %s | %s | %s | %s s | %s | %s | %s s |" % (e["property_id"], e["tier"], c.get("evaluations"), c.get("distinct_nontrivial"),
                   c.get("scheduler_steps"), int(c.get("simulated_seconds_covered") or 0), c.get("simulated_runs_per_hour"), fk or "—", e.get("wall_s")))
    tp = V + "/.build/thorough-summary.txt"
    if os.path.exists(tp):
        out += ["", "Thorough tier, last full sweep (`tools/thorough-all.sh`, 900 s budget per property, seed 1; one line per property: exit code, unlisted violations, KNOWN-FINDING lines, totals):", ""]
        for l in open(tp).read().splitlines():
            m = re.match(r"(C\d+) rc=(\d+) (\d+) violations; (\d+) known; C\d+ thorough: runs=(\d+) nontrivial=(\d+) distinct=\d+ steps=(\d+) sim=(\d+)s", l)
            if m:
                out.append("    %s exit=%s violations=%s known=%s runs=%s non-trivial=%s steps=%s simulated=%ss" % m.groups())
    else:
        out += kept("Thorough tier, last full sweep")
    lp = V + "/.build/selftest-det.log"
    if not os.path.exists(lp):
        out += kept("Determinism self-test (")
    else:
        lines = [l for l in open(lp).read().splitlines() if l.startswith("determinism ") or "MISMATCH" in l]
        if lines:
            out += ["", "Determinism self-test (`./check selftest determinism`, each scenario executed by four separate process groups at GOMAXPROCS 1, 1, 4, 16, per-run event-log hashes compared):", ""]
            out += ["    " + l for l in lines]
    return "\n".join(out)

def kept(head):
    """the sub-section of the committed DESIGN.md that starts with `head` (used when the log it was made from is gone)"""
    cur = open(V + "/DESIGN.md").read()
    m = re.search(r"<!-- BEGIN:measured -->(.*?)<!-- END:measured -->", cur, flags=re.S)
    if not m or head not in m.group(1):
        return []
    lines = m.group(1).split("\n")
    i = next(k for k, l in enumerate(lines) if l.startswith(head))
    res = [lines[i], ""]
    for l in lines[i + 2:]:
        if not l.startswith("    "):
            break
        res.append(l)
    return [""] + res

def main():
    p = V + "/DESIGN.md"
    s = open(p).read()
    for name, fn in (("findings", findings), ("seeded", seeded), ("measured", measured)):
        s = re.sub(r"<!-- BEGIN:%s -->.*?<!-- END:%s -->" % (name, name), lambda m: "<!-- BEGIN:%s -->\n%s\n<!-- END:%s -->" % (name, fn(), name), s, flags=re.S)
    open(p, "w").write(s)

if __name__ == "__main__":
    main()

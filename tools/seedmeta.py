#!/usr/bin/env python3
"""usage: seedmeta.py <seed-dir-name> <property> <needs> <detected: yes|no|pending> <detected_by clause/notes> """
import json, os, sys
name, prop, needs, det, how = sys.argv[1:6]
d = os.path.join("/verif/seeded", name)
meta = {
 "property": prop,
 "breaks": open(os.path.join(d, "notes.md")).read().split("\n")[0][:300] if os.path.exists(os.path.join(d, "notes.md")) else "",
 "needs_to_manifest": needs,
 "confirmed": {
   "how": "tools/seedconfirm.sh in a scratch worktree of /repo: patch applies and builds; go test ./proc/... ./host/... ./config/... ./controller/... ./cmd/... passes with the change; the demonstration (demo_test.go, TestSeedDemo*) fails with the change and passes without it",
 },
 "check_result": {"detected": det, "by": how,
   "ran": "tools/seedtest.sh <worktree> patch.diff %s quick  (VERIF_REPO=<worktree> ./check %s quick)" % (prop, prop)},
 "origin": "written by an independent sub-agent that saw only the property text and a scratch worktree",
}
json.dump(meta, open(os.path.join(d, "meta.json"), "w"), indent=1)
print("wrote", d)

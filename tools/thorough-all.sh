#!/bin/bash
# Runs the thorough tier of every claimed property, one after the other (each uses all 16 cores), and collects one summary
# line per property in .build/thorough-summary.txt.  Evidence files are left as the quick tier wrote them unless
# KEEP_EVIDENCE=0.
cd "$(dirname "$0")/.." || exit 2   # works from a snapshot copy of /verif as well
mkdir -p .build
OUT=.build/thorough-summary.txt
: > $OUT
for p in ${PROPS:-C01 C02 C03 C04 C05 C06 C07 C08 C09 C10 C11 C13 C14 C15 C16 C17 C18 C19 C20}; do
  VERIF_SEED=${VERIF_SEED:-1} VERIF_NO_EVIDENCE=${KEEP_EVIDENCE:-1} ./check $p thorough > .build/thorough-$p.log 2>&1
  rc=$?
  echo "$p rc=$rc $(grep -c '^VIOLATION' .build/thorough-$p.log) violations; $(grep -c '^KNOWN-FINDING' .build/thorough-$p.log) known; $(tail -1 .build/thorough-$p.log | cut -c1-160)" >> $OUT
done

#!/usr/bin/env python3
"""meta.json for the round-4 seeded changes."""
import subprocess,os
notes={
"C02-stop-branch-goto-fail":("compression on, a refused command last in the queue behind an unflushed request, the backend write failing at that flush","yes","no-panic (detected at the quick tier; the compression-enabled runs added after round 2 catch it)"),
"C02-send-loop-returns-on-quit":("an ASK redirection whose target's backend client has just quit (connection lost) or quits while the pair is being queued","yes","reply-within-horizon (missed at first: C02 had no redirections; caught after the class ask-target-reset (half-migrated slot, reads of absent keys, target connection reset repeatedly) was added)"),
"C04-compress-again-on-every-hop":("compression enabled, a redirected SET-family command whose compressed form is still above the threshold","yes (by the check of C13)","not visible to C04's check (its scenarios run without compression); caught by ./check C13 (clauses stored-form-legal, read-back-equals-written)"),
"C04-single-send-skips-mutex":("an ASK redirection concurrent with other traffic to the same target connection","yes","linearizable, 'executed after ASKING' (missed at first: the repaired defect it re-opens had only been found at the thorough tier; caught after the class asking-interleave was added)"),
"C07-trigger-dropped-after-rate-limit-pause":("a layout change within the minimum refresh interval after a successful refresh, sparse traffic on the moved slots","yes","routing-converges (detected at the quick tier)"),
"C07-timed-out-connect-cached":("a timed-out connect, then the backend reachable again and a request within one connect timeout","yes","served-after-heal / error-only-while-unreachable (detected at the quick tier)"),
"C08-config-guard-uses-len-endpoints":("the endpoint list known and empty at the moment a configuration arrives","yes","processor-for-configured-service / processor-has-latest-config (detected at the quick tier)"),
"C08-skip-reannounced-endpoints":("one update that removes and re-adds an address with another type","yes","processor-has-latest-endpoints (detected at the quick tier)"),
"C09-drain-before-writer-done":("the backend closing or the client being stopped while the writer holds a request between its write and the hand-over","yes","stop-returns (detected at the quick tier)"),
"C09-drain-guard-before-close":("StopListen before the listener has bound its port","yes","drain-stops-accepting (detected at the quick tier)"),
"C13-header-left-out-of-length-check":("values that snappy shortens by one to five bytes only","yes","stored-form-legal / read-back-equals-written (detected at the quick tier)"),
"C13-decompress-hook-only-for-reads":("GETSET on a key that holds a compressed value","yes","read-back-equals-written (detected at the quick tier)"),
}
for name,(needs,det,by) in notes.items():
    if not os.path.isdir('/verif/seeded/'+name): print('missing',name); continue
    subprocess.run(['/verif/tools/seedmeta.py',name,name.split('-')[0],needs,det,by],stdout=subprocess.DEVNULL)
print('done')

import json,os,subprocess
notes={
"C01-backend-queue-full-answered-busy":("more than 1024 unanswered requests on one backend connection (a stalled node and a very wide MGET or many deep pipelines)","missed at first; caught after the deep-queue class (stalled node + MGET of 1030+ keys) was added"),
"C01-text-replies-alias-read-buffer":("a +status/-error reply parked behind a slower earlier request while the same backend connection reads its next reply",""),
"C02-drain-before-writer-exit":("connection loss while the backend writer holds a request it has just flushed",""),
"C02-filter-answered-then-flush-fail":("compression enabled, a command refused in compress mode last in the queue behind an unflushed request, connection reset at that flush","missed at first; caught after compression-enabled runs were added to C02's environment generator"),
"C03-sum-result-unsynchronised":("the replies of two nodes to the children of one DEL/EXISTS/TOUCH/UNLINK processed at the same instant (non-atomic += on plain memory)","not caught at the quick tier; caught by dense runs (statement-granularity points + split read-modify-write) at thorough depth (found within 30 000 runs, ~4 min)"),
"C03-slots-cleared-before-refill":("a keyed command looked up between the clear loop and the fill loop of a slot refresh","not caught at the quick tier; caught by the thorough tier (70 000 runs) once traffic overlapped periodic refreshes (class conc+long) in dense runs"),
"C04-refresh-trigger-drained":("a MOVED arriving while a CLUSTER NODES reply with the old layout is in flight, then the old owner leaving","missed at first (masked: only known findings were reported); caught after the class refresh-in-flight+crash, the per-slot error admission rule and the clause error-after-redirection-taught-the-route were added"),
"C04-redirect-sent-from-goroutine":("pipelined same-key requests redirected to a node the proxy has no connection to yet","missed at first (same clause as the known finding program-order-across-redirection); caught after the out-of-order pair witness separated 'sent back by the same node in order' (clause program-order-among-redirected) from the known defect"),
"C05-idle-deadline-not-rearmed":("a connection busy for longer than the idle timeout with a read blocked when the stale deadline fires","missed at first; caught after the class busy-beyond-idle-timeout was added (and idle-timeout excuses were made precise: quiet period at the proxy's socket)"),
"C05-pooled-buffer-put-twice":("an earlier connection finished, then two directions active at the same time",""),
"C06-rr-inc-then-load":("two concurrent PickHost calls between Inc and Load",""),
"C06-readd-restores-unhealthy-host":("a host marked unhealthy, then announced again by discovery (OnSvcHostAdd), then an arrival","missed at first; caught after the re-announce class was added and the healthy-host clause was fixed to judge past probe-failure windows"),
"C07-removeclient-without-lock":("a connection loss overlapping a first connect to another backend or another loss",""),
"C07-refresh-trigger-drained":("a redirection while a refresh with the old layout is in flight","missed at first; caught after the class refresh-in-flight (layout change triggered by the node's CLUSTER NODES reply, gated client) was added"),
"C08-add-event-after-unlock":("the dependency stream removing a service between the config handler's unlock and its event emission","missed at first (updates were delivered by one task); caught after concurrent discovery streams judged against the store's own JSON view were added"),
"C08-drop-unchanged-remove-add-pairs":("a stored BACKUP endpoint removed and re-added as MAIN in one update","missed at first (updates never carried endpoint types); caught after types were generated"),
"C09-stop-keeps-registry-late-conn":("a connection accepted but not yet registered when Stop takes its snapshot",""),
"C09-serve-stop-snapshot-without-lock":("Stop landing while a connect to a backend that then stays silent is in progress",""),
"C11-flush-fail-after-filter-stop":("compression on, a refused command behind an unflushed request, the backend connection torn down by a corrupt reply","missed at first; caught after compression-enabled runs with a pipelined canary aimed at by the corruption were added"),
"C11-depth-counter-underflow":("null arrays as siblings of nested arrays, or null-array frames ahead of a deeply nested frame","missed at first; caught after nesting shapes (null siblings, leading *-1 frames) were added"),
"C13-snappy-writer-put-twice":("two backend connections inside compress() at the same moment","missed at first (needs preemption between plain statements); caught by dense runs"),
"C13-filters-only-when-section-exists":("service started without a compression section, a connection made before the section arrives, a redirected compressed write read back through it","missed at first; caught after the late-section classes were added"),
"C14-moved-updates-shared-instance":("a MOVED for one slot of a master, then a request for another slot of that master before the refresh","missed at first; caught after the slot-move class (every slot with a constant owner judged throughout) was added"),
"C14-refresh-keeps-stale-replicas":("a replica reassigned to another master, then a refresh, then reads under REPLICA/BOTH",""),
"C15-mark-checks-membership-by-equality":("remove, re-add with the same type, then a late mark for the old object",""),
"C15-agreeing-result-skips-counters":("interleaved probe outcomes such as F F S F F around the threshold",""),
"C16-flush-queues-after-send":("a Subscribe/Unsubscribe landing while the resubscription Send is in flight",""),
"C10-fill-keeps-empty-window-position":("more data than the reader buffer holds on one decoder, with a message boundary exactly at the buffer end",""),
"C10-null-array-leaves-depth":("32 or more null arrays (top-level or nested) on one decoder, then any array","missed at first; caught after the long-lived decoder class (hundreds of small messages, many null arrays) was added"),
"C17-send-error-ends-accept-loop":("a child that disappears after sending a request and before the reply is written",""),
"C17-drain-before-bind-lost":("a drain request arriving before the listener has bound its port","not visible to C17's check (the hand-over runs against a recording Instance; the real drain is exercised by C09): caught by ./check C09 (clause drain-stops-accepting)"),
"C18-pooled-scan-request-released-early":("two pipelined SCANs at different node indices sharing a pooled request object",""),
"C18-cursor-mask-47-bits-both-ways":("a node cursor with bit 47 set",""),
"C19-reset-keeps-stale-chain":("a Latch/Free followed by a period in which a key climbs into a stale frequency node",""),
"C19-collector-reuses-sorted-buffer":("a HOTKEY reader walking its slice while the next collect rewrites the shared backing array",""),
"C20-quit-check-between-total-and-hook":("a request reaching MakeRequestToHost after the upstream has quit (stop with requests in flight)",""),
"C20-removed-during-dial-early-return":("a host removal landing between the pick and the return of the dial to that host","missed at first (C20 had no TCP-service histories although the manifest said so); caught after the TCP class was added to C20"),
"C16-nonblocking-enqueue-drops":("more than 16 changes while a stream is up and its sender is stuck in a slow Send","missed at first; caught after the send-stall fault (slow Send) with a burst of changes was added"),
}
reg={}
p='/verif/seeded/REGRESSION.txt'
if os.path.exists(p):
    for l in open(p):
        f=l.split()
        if len(f)>=3: reg[f[0]]=(f[2], f[3] if len(f)>3 else '')
for name,(needs,how) in notes.items():
    prop=name.split('-')[0]
    d='/verif/seeded/'+name
    if not os.path.isdir(d): print('missing',name); continue
    rc,clause=reg.get(name,('',''))
    det='yes' if rc=='exit=1' else ('no (quick tier)' if rc=='exit=0' else 'pending')
    if name.startswith('C03-') and rc=='exit=0': det='thorough tier only'
    if name=='C17-drain-before-bind-lost': det='yes (by the check of C09)'
    by=(clause+' ' if clause else '')+('('+how+')' if how else '(detected at the quick tier)')
    subprocess.run(['/verif/tools/seedmeta.py',name,prop,needs,det,by],stdout=subprocess.DEVNULL)
print('done')

#!/bin/bash
# usage: tools/seedtest.sh <worktree> <patch.diff> <PROP> [tier]
# Applies a seeded change in a scratch worktree (updated to /repo's HEAD first), runs the check against it
# with VERIF_REPO, and restores the worktree.
set -u
WT=$1; PATCH=$2; PROP=$3; TIER=${4:-quick}
git -C "$WT" checkout -q -- . 2>/dev/null
git -C "$WT" checkout -q --detach "$(git -C /repo rev-parse HEAD)" || exit 2
git -C "$WT" apply "$PATCH" || { echo "patch does not apply"; exit 2; }
cd "$(dirname "$0")/.." || exit 2
out=$(VERIF_REPO="$WT" VERIF_NO_EVIDENCE=1 ./check "$PROP" "$TIER" 2>&1); rc=$?
echo "$out" | grep -E "^(VIOLATION|violation:|KNOWN|C[0-9]+ (quick|thorough):|check:)" | cut -c1-400
echo "exit=$rc"
git -C "$WT" checkout -q -- .
exit $rc
